//! Kani harnesses (real code, path dependencies on /repo). `//@` lines are read by bin/vcheck.
#![recursion_limit = "512"]
#![allow(unused, clippy::all, static_mut_refs)]
#![cfg_attr(kani, feature(core_io_borrowed_buf, read_buf))]
extern crate alloc;

#[cfg(kani)]
pub mod stubs;
#[cfg(kani)]
mod c19;
#[cfg(kani)]
mod wal;
