//! C19 — graph algorithms compute what their definitions say (small-graph kernels).
use crate::stubs::*;
use grafeo_adapters::plugins::algorithms::UnionFind;

/// reference: reflexive-symmetric-transitive closure of the union pairs on 4 elements (Warshall on a 4x4 bool matrix)
fn closure(pairs: &[(usize, usize); 3]) -> [[bool; 4]; 4] {
    let mut r = [[false; 4]; 4];
    let mut i = 0; while i < 4 { r[i][i] = true; i += 1; }
    let mut p = 0; while p < 3 { r[pairs[p].0][pairs[p].1] = true; r[pairs[p].1][pairs[p].0] = true; p += 1; }
    let mut k = 0;
    while k < 4 { let mut i = 0; while i < 4 { let mut j = 0; while j < 4 { if r[i][k] && r[k][j] { r[i][j] = true; } j += 1; } i += 1; } k += 1; }
    r
}

//@ property: C19
//@ tier: quick
//@ cap_s: 400
//@ encodes: UnionFind::{new,find,union,connected} (path compression, union by rank)
//@ symbolic: three union(x,y) calls with symbolic x,y in 0..4, the queried pair
//@ bound: 4 elements, 3 unions
//@ oracle: connected(a,b) == the reflexive-symmetric-transitive closure of the union pairs; union returns true iff the two were in different sets; find is idempotent and returns a member of the same class
#[kani::proof]
#[kani::unwind(6)]
fn c19_union_find_closure() {
    let mut uf = UnionFind::new(4);
    let mut pairs = [(0usize, 0usize); 3];
    let mut p = 0;
    while p < 3 {
        let (x, y): (usize, usize) = (kani::any(), kani::any());
        kani::assume(x < 4 && y < 4);
        let before = { let mut pr = pairs; let mut q = p; while q < 3 { pr[q] = (0, 0); q += 1; } closure(&pr)[x][y] };
        let merged = uf.union(x, y);
        assert!(merged == !before, "union() reports a merge although the elements were already connected (or the reverse)");
        pairs[p] = (x, y);
        p += 1;
    }
    let want = closure(&pairs);
    let (a, b): (usize, usize) = (kani::any(), kani::any());
    kani::assume(a < 4 && b < 4);
    assert!(uf.connected(a, b) == want[a][b], "connected() disagrees with the closure of the unions");
    let r = uf.find(a);
    assert!(r < 4 && want[a][r] && uf.find(r) == r);
    kani::cover!(want[0][3] && !want[0][1]);
    kani::cover!(want[0][1] && want[1][2] && want[2][3]);
    std::mem::forget(uf);
}

//@ property: C19
//@ tier: quick
//@ cap_s: 400
//@ mem_gb: 12
//@ encodes: UnionFind::{new,find,union,connected}
//@ symbolic: two union(x,y) calls with symbolic x,y in 0..3, then a repeated union and a self union
//@ bound: 3 elements, 2 + 2 unions
//@ oracle: union(x,x) never merges; repeating a union never merges again; the number of classes equals 3 minus the number of successful merges; connected is an equivalence (reflexive, symmetric, transitive on all triples)
#[kani::proof]
#[kani::unwind(5)]
fn c19_union_find_equivalence_and_counts() {
    let mut uf = UnionFind::new(3);
    let (x0, y0, x1, y1): (usize, usize, usize, usize) = (kani::any(), kani::any(), kani::any(), kani::any());
    kani::assume(x0 < 3 && y0 < 3 && x1 < 3 && y1 < 3);
    let mut merges = 0;
    if uf.union(x0, y0) { merges += 1; }
    if uf.union(x1, y1) { merges += 1; }
    assert!(!uf.union(x1, y1), "repeating a union merged again");
    assert!(!uf.union(x0, x0), "a self union merged");
    // classes = number of roots
    let mut roots = 0; let mut i = 0;
    while i < 3 { if uf.find(i) == i { roots += 1; } i += 1; }
    assert!(roots == 3 - merges, "class count disagrees with the number of successful merges");
    assert!(uf.connected(0, 0) && uf.connected(1, 1) && uf.connected(2, 2));
    assert!(uf.connected(0, 1) == uf.connected(1, 0) && uf.connected(0, 2) == uf.connected(2, 0) && uf.connected(1, 2) == uf.connected(2, 1));
    if uf.connected(0, 1) && uf.connected(1, 2) { assert!(uf.connected(0, 2)); }
    if uf.connected(0, 2) && uf.connected(2, 1) { assert!(uf.connected(0, 1)); }
    if uf.connected(1, 0) && uf.connected(0, 2) { assert!(uf.connected(1, 2)); }
    kani::cover!(merges == 2);
    kani::cover!(merges == 0);
    std::mem::forget(uf);
}

/// closure on 6 elements
fn closure6(pairs: &[(usize, usize); 5]) -> [[bool; 6]; 6] {
    let mut r = [[false; 6]; 6];
    let mut i = 0; while i < 6 { r[i][i] = true; i += 1; }
    let mut p = 0; while p < 5 { r[pairs[p].0][pairs[p].1] = true; r[pairs[p].1][pairs[p].0] = true; p += 1; }
    let mut k = 0;
    while k < 6 { let mut i = 0; while i < 6 { let mut j = 0; while j < 6 { if r[i][k] && r[k][j] { r[i][j] = true; } j += 1; } i += 1; } k += 1; }
    r
}

//@ property: C19
//@ tier: quick
//@ cap_s: 900
//@ mem_gb: 12
//@ encodes: UnionFind::{new,find,union,connected} with trees of rank 2 (union by rank: the "lower rank under higher rank" branch with a non-root argument)
//@ symbolic: the arguments of the fourth and fifth union (0..6 each) after three fixed unions that build a rank-2 tree {0,1,2,3}; the queried pair
//@ bound: 6 elements, 5 unions: union(0,1); union(2,3); union(0,2); then two symbolic unions
//@ oracle: connected(a,b) == closure of the five pairs; each symbolic union reports a merge exactly when the sets differed
#[kani::proof]
#[kani::unwind(8)]
fn c19_union_find_rank2_trees() {
    let mut uf = UnionFind::new(6);
    assert!(uf.union(0, 1)); assert!(uf.union(2, 3)); assert!(uf.union(0, 2));
    let mut pairs = [(0usize, 1usize), (2, 3), (0, 2), (0, 0), (0, 0)];
    let (x3, y3, x4, y4): (usize, usize, usize, usize) = (kani::any(), kani::any(), kani::any(), kani::any());
    kani::assume(x3 < 6 && y3 < 6 && x4 < 6 && y4 < 6);
    let before3 = closure6(&pairs)[x3][y3];
    assert!(uf.union(x3, y3) == !before3);
    pairs[3] = (x3, y3);
    let before4 = closure6(&pairs)[x4][y4];
    assert!(uf.union(x4, y4) == !before4, "union() reports a merge although the elements were already connected (or the reverse)");
    pairs[4] = (x4, y4);
    let want = closure6(&pairs);
    let (a, b): (usize, usize) = (kani::any(), kani::any());
    kani::assume(a < 6 && b < 6);
    assert!(uf.connected(a, b) == want[a][b], "connected() disagrees with the closure of the unions");
    kani::cover!(x3 == 4 && y3 == 5 && x4 == 5 && y4 == 0);
    kani::cover!(want[4][3] && !want[5][0]);
    std::mem::forget(uf);
}
