//! C05 / C06 — the write-ahead-log pipeline kernels over a symbolic "disk".
//! The file system is replaced by stubs of `<File as Read>::{read,read_buf}` that serve bytes from a
//! global byte array DISK[0..DLEN] (FS contract assumed: a reader sees exactly the bytes 0..DLEN).
use crate::stubs::*;
use grafeo_adapters::storage::wal::{WalRecord, WalRecovery};
use grafeo_common::types::{EdgeId, NodeId, TxId};
use std::fs::File;
use std::io::{BufReader, Read};
use std::os::fd::FromRawFd;

pub const DISK_CAP: usize = 36;
pub static mut DISK: [u8; DISK_CAP] = [0; DISK_CAP];
pub static mut DLEN: usize = 0;
pub static mut DPOS: usize = 0;

pub fn file_read_stub(_f: &mut File, buf: &mut [u8]) -> std::io::Result<usize> {
    unsafe {
        let n = core::cmp::min(buf.len(), DLEN - DPOS);
        let mut i = 0; while i < DISK_CAP { if i < n { buf[i] = DISK[DPOS + i]; } i += 1; }
        DPOS += n; Ok(n)
    }
}
pub fn file_read_buf_stub(_f: &mut File, mut cursor: std::io::BorrowedCursor<'_, u8>) -> std::io::Result<()> {
    unsafe {
        let n = core::cmp::min(cursor.capacity(), DLEN - DPOS);
        // fixed trip count, byte-wise: no bulk copy of symbolic length
        let dst = cursor.as_mut();
        let mut i = 0; while i < DISK_CAP { if i < n { dst[i].write(DISK[DPOS + i]); } i += 1; }
        cursor.advance(n);
        DPOS += n; Ok(())
    }
}
/// bitwise CRC-32/IEEE (reflected, poly 0xEDB88320): the function crc32fast computes, without cpuid dispatch
pub fn crc32_model(data: &[u8]) -> u32 {
    let mut crc: u32 = 0xFFFF_FFFF;
    let mut i = 0;
    while i < data.len() {
        crc ^= data[i] as u32;
        let mut k = 0; while k < 8 { let mask = (!(crc & 1)).wrapping_add(1); crc = (crc >> 1) ^ (0xEDB8_8320 & mask); k += 1; }
        i += 1;
    }
    !crc
}
/// UTF-8 validation cut: accepts any bytes. Only string-carrying record variants reach it, and those are outside
/// the claims of these harnesses (the solver cannot fold the concrete variant tag read back from the heap buffer, so
/// without this cut it explores the string variants' validation loops on every decode).
pub fn from_utf8_stub(v: &[u8]) -> Result<&str, core::str::Utf8Error> { Ok(unsafe { core::str::from_utf8_unchecked(v) }) }
pub fn decode_err_fmt(_e: &bincode::error::DecodeError, _f: &mut core::fmt::Formatter<'_>) -> core::fmt::Result { Ok(()) }
pub fn encode_err_fmt(_e: &bincode::error::EncodeError, _f: &mut core::fmt::Formatter<'_>) -> core::fmt::Result { Ok(()) }
pub fn a_file() -> File { unsafe { File::from_raw_fd(7) } }
pub fn put(bytes: &[u8]) { unsafe { let mut i = 0; while i < bytes.len() { DISK[DLEN + i] = bytes[i]; i += 1; } DLEN += bytes.len(); } }
/// appends one frame `u32 len | payload | u32 crc32(payload)` (the format documented in log.rs) for a payload
/// produced by the real encoder
pub fn put_frame(rec: &WalRecord) -> usize {
    let data = bincode::serde::encode_to_vec(rec, bincode::config::standard()).unwrap();
    put(&(data.len() as u32).to_le_bytes()); put(&data); put(&crc32_model(&data).to_le_bytes());
    let n = data.len(); std::mem::forget(data); n
}

macro_rules! wal_h {
    ($name:ident, $unwind:expr, $body:block) => {
        #[kani::proof]
        #[kani::unwind($unwind)]
        #[kani::stub(alloc::fmt::format, fmt_stub)]
        #[kani::stub(<std::fs::File as std::io::Read>::read, file_read_stub)]
        #[kani::stub(<std::fs::File as std::io::Read>::read_buf, file_read_buf_stub)]
        #[kani::stub(crc32fast::hash, crc32_model)]
        #[kani::stub(core::str::from_utf8, from_utf8_stub)]
        #[kani::stub(<bincode::error::DecodeError as core::fmt::Display>::fmt, decode_err_fmt)]
        #[kani::stub(<bincode::error::EncodeError as core::fmt::Display>::fmt, encode_err_fmt)]
        fn $name() $body
    };
}

// record contents are CONCRETE in the file-level harnesses (frame offsets and lengths stay concrete, the CRC of the
// written bytes folds to a constant); what is symbolic is the crash point / the flipped bit. Symbolic ids are
// covered by the codec round-trip harness below, without the file layer.
fn small_id() -> u64 { 7 }

//@ property: C05
//@ tier: thorough
//@ optional: yes
//@ cap_s: 600
//@ mem_gb: 10
//@ stubs: File::read/read_buf -> symbolic disk, crc32fast::hash -> bitwise CRC-32 model, alloc::fmt::format, core::str::from_utf8 -> accept (validation cut), bincode error Display -> empty
//@ encodes: WalRecovery::read_record (via verif_read_record), bincode encode/decode of WalRecord::{DeleteNode,TxCommit}, BufReader<File>
//@ symbolic: nothing but the reader's buffer refill behaviour (contents concrete); see c05_record_codec_roundtrip for symbolic ids
//@ bound: a log of two frames (DeleteNode, TxCommit), 20 bytes
//@ oracle: reading the log back yields the same two records in order, then end-of-file
wal_h!(c05_two_frames_read_back, 38, {
    let (nid, tid) = (small_id(), small_id());
    unsafe { DLEN = 0; DPOS = 0; }
    put_frame(&WalRecord::DeleteNode { id: NodeId::new(nid) });
    put_frame(&WalRecord::TxCommit { tx_id: TxId::new(tid) });
    let rec = WalRecovery::new("w");
    let mut rd = BufReader::with_capacity(DISK_CAP, a_file());
    let r1 = rec.verif_read_record(&mut rd);
    assert!(matches!(&r1, Ok(Some(WalRecord::DeleteNode { id })) if id.as_u64() == nid));
    let r2 = rec.verif_read_record(&mut rd);
    assert!(matches!(&r2, Ok(Some(WalRecord::TxCommit { tx_id })) if tx_id.as_u64() == tid));
    let r3 = rec.verif_read_record(&mut rd);
    assert!(matches!(&r3, Ok(None)));
    kani::cover!(true);
    std::mem::forget((r1, r2, r3, rd, rec));
});

//@ property: C06
//@ tier: thorough
//@ optional: yes
//@ cap_s: 900
//@ mem_gb: 12
//@ stubs: File::read/read_buf -> symbolic disk, crc32fast::hash -> bitwise CRC-32 model, alloc::fmt::format, core::str::from_utf8 -> accept (validation cut), bincode error Display -> empty
//@ encodes: WalRecovery::read_record (via verif_read_record), bincode decode, BufReader<File>
//@ symbolic: the crash point = byte length L of the file (0..=20)
//@ bound: a log of two frames (DeleteNode, TxCommit) cut at every byte length
//@ oracle: no panic; the records returned before the first error/EOF are a prefix of the written sequence; a frame is returned iff it lies completely below L: a torn record is never returned
wal_h!(c06_torn_tail_every_cut, 38, {
    let (nid, tid) = (small_id(), small_id());
    unsafe { DLEN = 0; DPOS = 0; }
    put_frame(&WalRecord::DeleteNode { id: NodeId::new(nid) });
    put_frame(&WalRecord::TxCommit { tx_id: TxId::new(tid) });
    let cut: usize = kani::any();
    kani::assume(cut <= 20);
    unsafe { DLEN = cut; }
    let rec = WalRecovery::new("w");
    let mut rd = BufReader::with_capacity(DISK_CAP, a_file());
    let r1 = rec.verif_read_record(&mut rd);
    if cut >= 10 {
        assert!(matches!(&r1, Ok(Some(WalRecord::DeleteNode { id })) if id.as_u64() == nid), "a complete first frame is not returned");
        let r2 = rec.verif_read_record(&mut rd);
        if cut >= 20 { assert!(matches!(&r2, Ok(Some(WalRecord::TxCommit { tx_id })) if tx_id.as_u64() == tid)); }
        else { assert!(!matches!(&r2, Ok(Some(_))), "a torn record was returned"); }
        std::mem::forget(r2);
    } else {
        assert!(!matches!(&r1, Ok(Some(_))), "a torn record was returned");
    }
    kani::cover!(cut == 13);
    kani::cover!(cut == 3);
    std::mem::forget((r1, rd, rec));
});

//@ property: C06
//@ tier: thorough
//@ optional: yes
//@ cap_s: 900
//@ mem_gb: 12
//@ stubs: File::read/read_buf -> symbolic disk, crc32fast::hash -> bitwise CRC-32 model, alloc::fmt::format, core::str::from_utf8 -> accept (validation cut), bincode error Display -> empty
//@ encodes: WalRecovery::read_record (via verif_read_record), checksum verification, bincode decode
//@ symbolic: the position (any bit of payload or checksum of the frame) of a single flipped bit
//@ bound: one frame DeleteNode (10 bytes); flips in the 4-byte length field are outside (a flipped length re-frames the stream)
//@ oracle: a frame with a flipped payload or checksum bit is never returned as a record (it is an error)
wal_h!(c06_single_bit_flip_detected, 38, {
    let nid = small_id();
    unsafe { DLEN = 0; DPOS = 0; }
    put_frame(&WalRecord::DeleteNode { id: NodeId::new(nid) });
    let (byte, bit): (usize, u8) = (kani::any(), kani::any());
    kani::assume(byte >= 4 && byte < 10 && bit < 8);
    unsafe { DISK[byte] ^= 1 << bit; }
    let rec = WalRecovery::new("w");
    let mut rd = BufReader::with_capacity(DISK_CAP, a_file());
    let r1 = rec.verif_read_record(&mut rd);
    assert!(!matches!(&r1, Ok(Some(_))), "a corrupted record was applied");
    kani::cover!(byte == 5);
    kani::cover!(byte == 9);
    std::mem::forget((r1, rd, rec));
});

fn enc_dec(r: &WalRecord) -> WalRecord {
    let data = bincode::serde::encode_to_vec(r, bincode::config::standard()).unwrap();
    let (back, used): (WalRecord, usize) = bincode::serde::decode_from_slice(&data, bincode::config::standard()).unwrap();
    assert!(used == data.len(), "decode does not consume exactly what encode produced");
    std::mem::forget(data);
    back
}

//@ property: C05
//@ tier: thorough
//@ optional: yes
//@ cap_s: 900
//@ mem_gb: 12
//@ stubs: alloc::fmt::format, core::str::from_utf8 -> accept (validation cut), bincode error Display -> empty
//@ encodes: bincode::serde::{encode_to_vec,decode_from_slice} on WalRecord::{DeleteNode,DeleteEdge,TxCommit,TxAbort,Checkpoint} (serde derive), varint integer codec
//@ symbolic: the id of each record: every u64 (all four varint length classes)
//@ bound: the five id-only record variants
//@ oracle: decode(encode(r)) == r and the consumed length equals the encoded length
#[kani::proof]
#[kani::unwind(12)]
#[kani::stub(alloc::fmt::format, fmt_stub)]
#[kani::stub(core::str::from_utf8, from_utf8_stub)]
#[kani::stub(<bincode::error::DecodeError as core::fmt::Display>::fmt, decode_err_fmt)]
#[kani::stub(<bincode::error::EncodeError as core::fmt::Display>::fmt, encode_err_fmt)]
fn c05_record_codec_roundtrip_ids() {
    let id: u64 = kani::any();
    let b = enc_dec(&WalRecord::DeleteNode { id: NodeId::new(id) }); assert!(matches!(&b, WalRecord::DeleteNode { id: x } if x.as_u64() == id)); std::mem::forget(b);
    let b = enc_dec(&WalRecord::DeleteEdge { id: EdgeId::new(id) }); assert!(matches!(&b, WalRecord::DeleteEdge { id: x } if x.as_u64() == id)); std::mem::forget(b);
    let b = enc_dec(&WalRecord::TxCommit { tx_id: TxId::new(id) }); assert!(matches!(&b, WalRecord::TxCommit { tx_id: x } if x.as_u64() == id)); std::mem::forget(b);
    let b = enc_dec(&WalRecord::TxAbort { tx_id: TxId::new(id) }); assert!(matches!(&b, WalRecord::TxAbort { tx_id: x } if x.as_u64() == id)); std::mem::forget(b);
    let b = enc_dec(&WalRecord::Checkpoint { tx_id: TxId::new(id) }); assert!(matches!(&b, WalRecord::Checkpoint { tx_id: x } if x.as_u64() == id)); std::mem::forget(b);
    kani::cover!(id > (1u64 << 40));
    kani::cover!(id < 100);
}

/// one frame with concrete length field (2), SYMBOLIC payload and checksum bytes, cut at a CONCRETE byte length
fn torn_once(cut: usize, content: &[u8; 6]) -> bool {
    unsafe {
        DLEN = 0; DPOS = 0;
        put(&2u32.to_le_bytes()); put(content);
        DLEN = cut;
    }
    let rec = WalRecovery::new("w");
    let mut rd = BufReader::with_capacity(DISK_CAP, a_file());
    let r = rec.verif_read_record(&mut rd);
    let returned = matches!(&r, Ok(Some(_)));
    let clean_eof = matches!(&r, Ok(None));
    assert!(!returned, "a torn record was returned");
    if cut < 4 { assert!(clean_eof, "a file cut inside the length prefix must read as end of log"); }
    std::mem::forget((r, rd, rec));
    clean_eof
}

//@ property: C06
//@ tier: quick
//@ cap_s: 900
//@ mem_gb: 12
//@ stubs: File::read/read_buf -> symbolic disk, crc32fast::hash -> bitwise CRC-32 model, alloc::fmt::format, core::str::from_utf8 -> accept (validation cut), bincode error Display -> empty
//@ encodes: WalRecovery::read_record (via verif_read_record): length prefix, payload and checksum reads over BufReader<File>, end-of-file handling
//@ symbolic: the 2 payload bytes and the 4 checksum bytes of the last frame (every content); the crash point ranges over every byte length 0..=9 inside the 10-byte frame (unrolled: control is concrete so that the decoder is never reached)
//@ bound: one frame with a 2-byte payload; crash points strictly inside the frame
//@ oracle: a record whose frame is torn at any byte is never returned, whatever its bytes; a cut inside the length prefix reads as a clean end of log
#[kani::proof]
#[kani::unwind(38)]
#[kani::stub(alloc::fmt::format, fmt_stub)]
#[kani::stub(<std::fs::File as std::io::Read>::read, file_read_stub)]
#[kani::stub(<std::fs::File as std::io::Read>::read_buf, file_read_buf_stub)]
#[kani::stub(crc32fast::hash, crc32_model)]
#[kani::stub(core::str::from_utf8, from_utf8_stub)]
#[kani::stub(<bincode::error::DecodeError as core::fmt::Display>::fmt, decode_err_fmt)]
#[kani::stub(<bincode::error::EncodeError as core::fmt::Display>::fmt, encode_err_fmt)]
fn c06_torn_frame_never_returned() {
    let content: [u8; 6] = kani::any();
    let e0 = torn_once(0, &content); torn_once(1, &content); torn_once(2, &content); torn_once(3, &content);
    let e4 = torn_once(4, &content); torn_once(5, &content); torn_once(6, &content); torn_once(7, &content); torn_once(8, &content); torn_once(9, &content);
    kani::cover!(e0 && !e4);
}

/// as `torn_once`, payload length L (content = L payload bytes + 4 checksum bytes = C bytes)
fn torn_once_l<const L: usize, const C: usize>(cut: usize, content: &[u8; C]) -> bool {
    unsafe { DLEN = 0; DPOS = 0; put(&(L as u32).to_le_bytes()); put(content); DLEN = cut; }
    let rec = WalRecovery::new("w");
    let mut rd = BufReader::with_capacity(DISK_CAP, a_file());
    let r = rec.verif_read_record(&mut rd);
    let returned = matches!(&r, Ok(Some(_)));
    let clean_eof = matches!(&r, Ok(None));
    assert!(!returned, "a torn record was returned");
    if cut < 4 { assert!(clean_eof); }
    std::mem::forget((r, rd, rec));
    clean_eof
}

//@ property: C06
//@ tier: quick
//@ cap_s: 900
//@ mem_gb: 12
//@ stubs: File::read/read_buf -> symbolic disk, crc32fast::hash -> bitwise CRC-32 model, alloc::fmt::format, core::str::from_utf8 -> accept (validation cut), bincode error Display -> empty
//@ encodes: WalRecovery::read_record (via verif_read_record) over BufReader<File>
//@ symbolic: the 5 payload bytes and 4 checksum bytes (every content); crash point = every byte length 0..=12 inside the 13-byte frame (unrolled)
//@ bound: one frame with a 5-byte payload; crash points strictly inside the frame
//@ oracle: a torn frame is never returned as a record, whatever its bytes
#[kani::proof]
#[kani::unwind(38)]
#[kani::stub(alloc::fmt::format, fmt_stub)]
#[kani::stub(<std::fs::File as std::io::Read>::read, file_read_stub)]
#[kani::stub(<std::fs::File as std::io::Read>::read_buf, file_read_buf_stub)]
#[kani::stub(crc32fast::hash, crc32_model)]
#[kani::stub(core::str::from_utf8, from_utf8_stub)]
#[kani::stub(<bincode::error::DecodeError as core::fmt::Display>::fmt, decode_err_fmt)]
#[kani::stub(<bincode::error::EncodeError as core::fmt::Display>::fmt, encode_err_fmt)]
fn c06_torn_frame_payload5_never_returned() {
    let content: [u8; 9] = kani::any();
    let e0 = torn_once_l::<5, 9>(0, &content); torn_once_l::<5, 9>(1, &content); torn_once_l::<5, 9>(2, &content); torn_once_l::<5, 9>(3, &content);
    let e4 = torn_once_l::<5, 9>(4, &content); torn_once_l::<5, 9>(5, &content); torn_once_l::<5, 9>(6, &content); torn_once_l::<5, 9>(7, &content);
    torn_once_l::<5, 9>(8, &content); torn_once_l::<5, 9>(9, &content); torn_once_l::<5, 9>(10, &content); torn_once_l::<5, 9>(11, &content); torn_once_l::<5, 9>(12, &content);
    kani::cover!(e0 && !e4);
}

//@ property: C06
//@ tier: quick
//@ cap_s: 900
//@ mem_gb: 12
//@ stubs: as c06_torn_frame_never_returned
//@ encodes: WalRecovery::read_record (via verif_read_record) over BufReader<File>
//@ symbolic: the payload byte and the 4 checksum bytes of a one-byte-payload frame; crash point = every byte length 0..=8 (unrolled)
//@ bound: one frame with a 1-byte payload (9 bytes); crash points strictly inside the frame. (A zero-length payload is outside: Kani's allocator model rejects the deallocation of the empty `vec![0u8; 0]`, a modelling artefact.)
//@ oracle: a torn frame is never returned as a record
#[kani::proof]
#[kani::unwind(38)]
#[kani::stub(alloc::fmt::format, fmt_stub)]
#[kani::stub(<std::fs::File as std::io::Read>::read, file_read_stub)]
#[kani::stub(<std::fs::File as std::io::Read>::read_buf, file_read_buf_stub)]
#[kani::stub(crc32fast::hash, crc32_model)]
#[kani::stub(core::str::from_utf8, from_utf8_stub)]
#[kani::stub(<bincode::error::DecodeError as core::fmt::Display>::fmt, decode_err_fmt)]
#[kani::stub(<bincode::error::EncodeError as core::fmt::Display>::fmt, encode_err_fmt)]
fn c06_torn_frame_payload1_never_returned() {
    let content: [u8; 5] = kani::any();
    let e0 = torn_once_l::<1, 5>(0, &content); torn_once_l::<1, 5>(1, &content); torn_once_l::<1, 5>(2, &content); torn_once_l::<1, 5>(3, &content);
    let e4 = torn_once_l::<1, 5>(4, &content); torn_once_l::<1, 5>(5, &content); torn_once_l::<1, 5>(6, &content); torn_once_l::<1, 5>(7, &content); torn_once_l::<1, 5>(8, &content);
    kani::cover!(e0 && !e4);
}

// ------------------------------------------------------------------------------------------------------------
// Framing and checksum logic with the DECODER CUT: `bincode::serde::decode_from_slice` is replaced by a stub
// that "decodes" any payload into some record (an over-approximation of decoding success). What remains is
// exactly the part of recovery that decides whether a frame is applied at all: length prefix, payload and
// checksum reads, end-of-file handling and the CRC comparison.
// ------------------------------------------------------------------------------------------------------------
pub fn decode_any<D: serde::de::DeserializeOwned, C: bincode::config::Config>(slice: &[u8], _config: C) -> Result<(D, usize), bincode::error::DecodeError> {
    // only ever instantiated with D = WalRecord (checked by the size assertion)
    let r = WalRecord::TxCommit { tx_id: TxId::new(if slice.is_empty() { 0 } else { slice[0] as u64 }) };
    assert!(std::mem::size_of::<D>() == std::mem::size_of::<WalRecord>());
    let d: D = unsafe { std::mem::transmute_copy(&r) };
    std::mem::forget(r);
    Ok((d, slice.len()))
}

macro_rules! frame_h {
    ($name:ident, $body:block) => {
        #[kani::proof]
        #[kani::unwind(38)]
        #[kani::stub(alloc::fmt::format, fmt_stub)]
        #[kani::stub(<std::fs::File as std::io::Read>::read, file_read_stub)]
        #[kani::stub(<std::fs::File as std::io::Read>::read_buf, file_read_buf_stub)]
        #[kani::stub(crc32fast::hash, crc32_model)]
        #[kani::stub(bincode::serde::decode_from_slice, decode_any)]
        fn $name() $body
    };
}

//@ property: C06
//@ tier: quick
//@ cap_s: 900
//@ mem_gb: 12
//@ stubs: File::read/read_buf -> symbolic disk, crc32fast::hash -> bitwise CRC-32 model, alloc::fmt::format, bincode::serde::decode_from_slice -> "every payload decodes" (decoder cut)
//@ encodes: WalRecovery::read_record (via verif_read_record): frame reads, checksum verification
//@ symbolic: the 3 payload bytes and the 4 stored checksum bytes of a complete frame (every content, i.e. every single- and multi-bit corruption of payload or checksum)
//@ bound: one complete frame with a 3-byte payload (the size of a commit marker)
//@ oracle: the frame is returned as a record if and only if the stored checksum equals CRC-32 of the payload; otherwise it is an error: a record that fails its checksum is never applied
frame_h!(c06_checksum_decides_acceptance, {
    let payload: [u8; 3] = kani::any();
    let stored: [u8; 4] = kani::any();
    unsafe { DLEN = 0; DPOS = 0; }
    put(&3u32.to_le_bytes()); put(&payload); put(&stored);
    let rec = WalRecovery::new("w");
    let mut rd = BufReader::with_capacity(DISK_CAP, a_file());
    let r = rec.verif_read_record(&mut rd);
    let good = u32::from_le_bytes(stored) == crc32_model(&payload);
    assert!(matches!(&r, Ok(Some(_))) == good, "acceptance of a frame disagrees with its checksum");
    if !good { assert!(r.is_err(), "a frame with a wrong checksum must be an error"); }
    kani::cover!(good);
    kani::cover!(!good);
    std::mem::forget((r, rd, rec));
});

macro_rules! prefix_cut { ($payload:expr, $crc:expr, $c:expr) => {{
    unsafe { DLEN = 0; DPOS = 0; }
    put(&3u32.to_le_bytes()); put(&$payload); put(&$crc);
    unsafe { DLEN = $c; }
    let rec = WalRecovery::new("w");
    let mut rd = BufReader::with_capacity(DISK_CAP, a_file());
    let r = rec.verif_read_record(&mut rd);
    assert!(!matches!(&r, Ok(Some(_))), "a torn record was returned");
    std::mem::forget((r, rd, rec));
}}; }

//@ property: C06
//@ tier: quick
//@ cap_s: 900
//@ mem_gb: 12
//@ stubs: as c06_checksum_decides_acceptance
//@ encodes: WalRecovery::read_record (via verif_read_record)
//@ symbolic: payload (3 bytes) of the last frame; crash point = every byte length 7..=10: between payload and checksum and inside the checksum (unrolled)
//@ bound: one frame with a 3-byte payload whose stored checksum is the CORRECT one (a reader that compared only the checksum bytes it managed to read would accept the torn frame)
//@ oracle: a frame cut inside its checksum is never returned, although every byte that is present is correct
frame_h!(c06_torn_inside_checksum_never_returned, {
    let payload: [u8; 3] = kani::any();
    let crc = crc32_model(&payload).to_le_bytes();
    prefix_cut!(payload, crc, 7); prefix_cut!(payload, crc, 8); prefix_cut!(payload, crc, 9); prefix_cut!(payload, crc, 10);
    kani::cover!(true);
});

// (cuts inside the length prefix and the payload are decided, for every frame content, by the c06_torn_frame_* harnesses above)

// ------------------------------------------------------------------------------------------------------------
// Writer side: the real WalManager::log over BufWriter<File>, with File writes going to the same disk model and a
// synced-length watermark (FS contract assumed: bytes below the watermark survive a crash; of the bytes above it any
// prefix may survive).
// ------------------------------------------------------------------------------------------------------------
pub static mut SYNCED: usize = 0;
pub fn file_write_stub(_f: &mut File, buf: &[u8]) -> std::io::Result<usize> {
    unsafe { let mut i = 0; while i < DISK_CAP { if i < buf.len() { DISK[DLEN + i] = buf[i]; } i += 1; } DLEN += buf.len(); Ok(buf.len()) }
}
pub fn file_flush_stub(_f: &mut File) -> std::io::Result<()> { Ok(()) }
pub fn file_sync_all_stub(_f: &File) -> std::io::Result<()> { unsafe { SYNCED = DLEN; } Ok(()) }
pub fn instant_now_stub() -> std::time::Instant { unsafe { std::mem::transmute::<[u64; 2], std::time::Instant>([kani::any::<u32>() as u64, 0]) } }

//@ property: C06
//@ tier: thorough
//@ optional: yes
//@ cap_s: 900
//@ mem_gb: 14
//@ stubs: File::write/flush/sync_all/read/read_buf -> disk model with a synced watermark, Instant::now -> arbitrary, crc32fast::hash -> bitwise CRC-32 model, parking_lot mutex slow paths, alloc::fmt::format, bincode decode -> decoder cut
//@ encodes: WalManager::log (real bincode ENCODER, framing, size tracking, Sync durability mode: flush + sync_all on a commit marker), then WalRecovery::read_record on what was written
//@ symbolic: node id and transaction id of a data record and a commit marker (0..=250)
//@ bound: log of two records (DeleteNode, TxCommit) in Sync mode
//@ oracle: every byte of both frames is on disk and below the synced watermark once log() of the commit marker returns; the reader accepts exactly two frames and then reports a clean end of log (writer and reader agree on the frame format)
#[kani::proof]
#[kani::unwind(38)]
#[kani::stub(alloc::fmt::format, fmt_stub)]
#[kani::stub(<std::fs::File as std::io::Read>::read, file_read_stub)]
#[kani::stub(<std::fs::File as std::io::Read>::read_buf, file_read_buf_stub)]
#[kani::stub(<std::fs::File as std::io::Write>::write, file_write_stub)]
#[kani::stub(<std::fs::File as std::io::Write>::flush, file_flush_stub)]
#[kani::stub(std::fs::File::sync_all, file_sync_all_stub)]
#[kani::stub(std::time::Instant::now, instant_now_stub)]
#[kani::stub(parking_lot::RawMutex::lock_slow, mx_lock_slow)]
#[kani::stub(parking_lot::RawMutex::unlock_slow, mx_unlock_slow)]
#[kani::stub(crc32fast::hash, crc32_model)]
#[kani::stub(bincode::serde::decode_from_slice, decode_any)]
fn c06_sync_mode_commit_is_durable_and_readable() {
    use grafeo_adapters::storage::wal::{DurabilityMode, WalConfig, WalManager};
    let (nid, tid): (u64, u64) = (kani::any(), kani::any());
    kani::assume(nid <= 250 && tid <= 250);
    unsafe { DLEN = 0; DPOS = 0; SYNCED = 0; }
    let cfg = WalConfig { durability: DurabilityMode::Sync, max_log_size: 1 << 20, compression: false };
    let wal = WalManager::verif_with_file(std::path::PathBuf::new(), cfg, a_file(), 0, instant_now_stub());
    let r1 = wal.log(&WalRecord::DeleteNode { id: NodeId::new(nid) });
    assert!(r1.is_ok());
    let r2 = wal.log(&WalRecord::TxCommit { tx_id: TxId::new(tid) });
    assert!(r2.is_ok());
    let written = unsafe { DLEN };
    assert!(written == 20, "two 2-byte payload frames are 20 bytes");
    assert!(unsafe { SYNCED } == written, "Sync mode: a commit marker must be on stable storage when log() returns");
    assert!(wal.record_count() == 2);
    // the reader accepts exactly what the writer wrote
    let rec = WalRecovery::new("w");
    let mut rd = BufReader::with_capacity(DISK_CAP, a_file());
    let a = rec.verif_read_record(&mut rd); assert!(matches!(&a, Ok(Some(_))));
    let b = rec.verif_read_record(&mut rd); assert!(matches!(&b, Ok(Some(_))));
    let c = rec.verif_read_record(&mut rd); assert!(matches!(&c, Ok(None)));
    kani::cover!(nid == 250);
    std::mem::forget((r1, r2, a, b, c, rd, rec, wal));
}

//@ property: C06
//@ tier: thorough
//@ optional: yes
//@ cap_s: 900
//@ mem_gb: 14
//@ stubs: File::write/flush/read/read_buf -> disk model, Instant::now -> arbitrary, crc32fast::hash -> bitwise CRC-32 model, parking_lot mutex slow paths, alloc::fmt::format, bincode decode -> decoder cut
//@ encodes: WalManager::log (real bincode encoder, framing, NoSync mode: flush only), then WalRecovery::read_record on what was written
//@ symbolic: the transaction id of one commit marker (0..=250)
//@ bound: one record, NoSync durability
//@ oracle: log() writes exactly one well-formed frame (length prefix = payload length, checksum = CRC-32 of the payload) that the reader accepts, followed by a clean end of log
#[kani::proof]
#[kani::unwind(38)]
#[kani::stub(alloc::fmt::format, fmt_stub)]
#[kani::stub(<std::fs::File as std::io::Read>::read, file_read_stub)]
#[kani::stub(<std::fs::File as std::io::Read>::read_buf, file_read_buf_stub)]
#[kani::stub(<std::fs::File as std::io::Write>::write, file_write_stub)]
#[kani::stub(<std::fs::File as std::io::Write>::flush, file_flush_stub)]
#[kani::stub(std::fs::File::sync_all, file_sync_all_stub)]
#[kani::stub(std::time::Instant::now, instant_now_stub)]
#[kani::stub(parking_lot::RawMutex::lock_slow, mx_lock_slow)]
#[kani::stub(parking_lot::RawMutex::unlock_slow, mx_unlock_slow)]
#[kani::stub(crc32fast::hash, crc32_model)]
#[kani::stub(bincode::serde::decode_from_slice, decode_any)]
fn c06_log_then_read_one_record() {
    use grafeo_adapters::storage::wal::{DurabilityMode, WalConfig, WalManager};
    let tid: u64 = kani::any();
    kani::assume(tid <= 250);
    unsafe { DLEN = 0; DPOS = 0; SYNCED = 0; }
    let cfg = WalConfig { durability: DurabilityMode::NoSync, max_log_size: 1 << 20, compression: false };
    let wal = WalManager::verif_with_file(std::path::PathBuf::new(), cfg, a_file(), 0, instant_now_stub());
    let r = wal.log(&WalRecord::TxCommit { tx_id: TxId::new(tid) });
    assert!(r.is_ok());
    let written = unsafe { DLEN };
    assert!(written == 10, "one 2-byte payload frame is 10 bytes");
    unsafe {
        assert!(DISK[0] == 2 && DISK[1] == 0 && DISK[2] == 0 && DISK[3] == 0, "length prefix");
        let p = [DISK[4], DISK[5]];
        assert!(u32::from_le_bytes([DISK[6], DISK[7], DISK[8], DISK[9]]) == crc32_model(&p), "checksum field is the CRC-32 of the payload");
    }
    let rec = WalRecovery::new("w");
    let mut rd = BufReader::with_capacity(DISK_CAP, a_file());
    let a = rec.verif_read_record(&mut rd); assert!(matches!(&a, Ok(Some(_))));
    let b = rec.verif_read_record(&mut rd); assert!(matches!(&b, Ok(None)));
    kani::cover!(tid == 250);
    std::mem::forget((r, a, b, rd, rec, wal));
}
