//! C05 / C06 — the write-ahead-log pipeline kernels over a symbolic "disk".
//! The file system is replaced by stubs of `<File as Read>::{read,read_buf}` that serve bytes from a
//! global byte array DISK[0..DLEN] (FS contract assumed: a reader sees exactly the bytes 0..DLEN).
use crate::stubs::*;
use grafeo_adapters::storage::wal::{WalRecord, WalRecovery};
use grafeo_common::types::{EdgeId, NodeId, TxId};
use std::fs::File;
use std::io::{BufReader, Read};
use std::os::fd::FromRawFd;

pub const DISK_CAP: usize = 32;
pub static mut DISK: [u8; DISK_CAP] = [0; DISK_CAP];
pub static mut DLEN: usize = 0;
pub static mut DPOS: usize = 0;

pub fn file_read_stub(_f: &mut File, buf: &mut [u8]) -> std::io::Result<usize> {
    unsafe {
        let n = core::cmp::min(buf.len(), DLEN - DPOS);
        let mut i = 0; while i < DISK_CAP { if i < n { buf[i] = DISK[DPOS + i]; } i += 1; }
        DPOS += n; Ok(n)
    }
}
pub fn file_read_buf_stub(_f: &mut File, mut cursor: std::io::BorrowedCursor<'_, u8>) -> std::io::Result<()> {
    unsafe {
        let n = core::cmp::min(cursor.capacity(), DLEN - DPOS);
        // fixed trip count, byte-wise: no bulk copy of symbolic length
        let dst = cursor.as_mut();
        let mut i = 0; while i < DISK_CAP { if i < n { dst[i].write(DISK[DPOS + i]); } i += 1; }
        cursor.advance(n);
        DPOS += n; Ok(())
    }
}
/// bitwise CRC-32/IEEE (reflected, poly 0xEDB88320): the function crc32fast computes, without cpuid dispatch
pub fn crc32_model(data: &[u8]) -> u32 {
    let mut crc: u32 = 0xFFFF_FFFF;
    let mut i = 0;
    while i < data.len() {
        crc ^= data[i] as u32;
        let mut k = 0; while k < 8 { let mask = (!(crc & 1)).wrapping_add(1); crc = (crc >> 1) ^ (0xEDB8_8320 & mask); k += 1; }
        i += 1;
    }
    !crc
}
/// UTF-8 validation cut: accepts any bytes. Only string-carrying record variants reach it, and those are outside
/// the claims of these harnesses (the solver cannot fold the concrete variant tag read back from the heap buffer, so
/// without this cut it explores the string variants' validation loops on every decode).
pub fn from_utf8_stub(v: &[u8]) -> Result<&str, core::str::Utf8Error> { Ok(unsafe { core::str::from_utf8_unchecked(v) }) }
pub fn decode_err_fmt(_e: &bincode::error::DecodeError, _f: &mut core::fmt::Formatter<'_>) -> core::fmt::Result { Ok(()) }
pub fn encode_err_fmt(_e: &bincode::error::EncodeError, _f: &mut core::fmt::Formatter<'_>) -> core::fmt::Result { Ok(()) }
pub fn a_file() -> File { unsafe { File::from_raw_fd(7) } }
pub fn put(bytes: &[u8]) { unsafe { let mut i = 0; while i < bytes.len() { DISK[DLEN + i] = bytes[i]; i += 1; } DLEN += bytes.len(); } }
/// appends one frame `u32 len | payload | u32 crc32(payload)` (the format documented in log.rs) for a payload
/// produced by the real encoder
pub fn put_frame(rec: &WalRecord) -> usize {
    let data = bincode::serde::encode_to_vec(rec, bincode::config::standard()).unwrap();
    put(&(data.len() as u32).to_le_bytes()); put(&data); put(&crc32_model(&data).to_le_bytes());
    let n = data.len(); std::mem::forget(data); n
}

macro_rules! wal_h {
    ($name:ident, $unwind:expr, $body:block) => {
        #[kani::proof]
        #[kani::unwind($unwind)]
        #[kani::stub(alloc::fmt::format, fmt_stub)]
        #[kani::stub(<std::fs::File as std::io::Read>::read, file_read_stub)]
        #[kani::stub(<std::fs::File as std::io::Read>::read_buf, file_read_buf_stub)]
        #[kani::stub(crc32fast::hash, crc32_model)]
        #[kani::stub(core::str::from_utf8, from_utf8_stub)]
        #[kani::stub(<bincode::error::DecodeError as core::fmt::Display>::fmt, decode_err_fmt)]
        #[kani::stub(<bincode::error::EncodeError as core::fmt::Display>::fmt, encode_err_fmt)]
        fn $name() $body
    };
}

// record contents are CONCRETE in the file-level harnesses (frame offsets and lengths stay concrete, the CRC of the
// written bytes folds to a constant); what is symbolic is the crash point / the flipped bit. Symbolic ids are
// covered by the codec round-trip harness below, without the file layer.
fn small_id() -> u64 { 7 }

//@ property: C05
//@ tier: thorough
//@ optional: yes
//@ cap_s: 600
//@ mem_gb: 10
//@ stubs: File::read/read_buf -> symbolic disk, crc32fast::hash -> bitwise CRC-32 model, alloc::fmt::format, core::str::from_utf8 -> accept (validation cut), bincode error Display -> empty
//@ encodes: WalRecovery::read_record (via verif_read_record), bincode encode/decode of WalRecord::{DeleteNode,TxCommit}, BufReader<File>
//@ symbolic: nothing but the reader's buffer refill behaviour (contents concrete); see c05_record_codec_roundtrip for symbolic ids
//@ bound: a log of two frames (DeleteNode, TxCommit), 20 bytes
//@ oracle: reading the log back yields the same two records in order, then end-of-file
wal_h!(c05_two_frames_read_back, 34, {
    let (nid, tid) = (small_id(), small_id());
    unsafe { DLEN = 0; DPOS = 0; }
    put_frame(&WalRecord::DeleteNode { id: NodeId::new(nid) });
    put_frame(&WalRecord::TxCommit { tx_id: TxId::new(tid) });
    let rec = WalRecovery::new("w");
    let mut rd = BufReader::with_capacity(DISK_CAP, a_file());
    let r1 = rec.verif_read_record(&mut rd);
    assert!(matches!(&r1, Ok(Some(WalRecord::DeleteNode { id })) if id.as_u64() == nid));
    let r2 = rec.verif_read_record(&mut rd);
    assert!(matches!(&r2, Ok(Some(WalRecord::TxCommit { tx_id })) if tx_id.as_u64() == tid));
    let r3 = rec.verif_read_record(&mut rd);
    assert!(matches!(&r3, Ok(None)));
    kani::cover!(true);
    std::mem::forget((r1, r2, r3, rd, rec));
});

//@ property: C06
//@ tier: thorough
//@ optional: yes
//@ cap_s: 900
//@ mem_gb: 12
//@ stubs: File::read/read_buf -> symbolic disk, crc32fast::hash -> bitwise CRC-32 model, alloc::fmt::format, core::str::from_utf8 -> accept (validation cut), bincode error Display -> empty
//@ encodes: WalRecovery::read_record (via verif_read_record), bincode decode, BufReader<File>
//@ symbolic: the crash point = byte length L of the file (0..=20)
//@ bound: a log of two frames (DeleteNode, TxCommit) cut at every byte length
//@ oracle: no panic; the records returned before the first error/EOF are a prefix of the written sequence; a frame is returned iff it lies completely below L: a torn record is never returned
wal_h!(c06_torn_tail_every_cut, 34, {
    let (nid, tid) = (small_id(), small_id());
    unsafe { DLEN = 0; DPOS = 0; }
    put_frame(&WalRecord::DeleteNode { id: NodeId::new(nid) });
    put_frame(&WalRecord::TxCommit { tx_id: TxId::new(tid) });
    let cut: usize = kani::any();
    kani::assume(cut <= 20);
    unsafe { DLEN = cut; }
    let rec = WalRecovery::new("w");
    let mut rd = BufReader::with_capacity(DISK_CAP, a_file());
    let r1 = rec.verif_read_record(&mut rd);
    if cut >= 10 {
        assert!(matches!(&r1, Ok(Some(WalRecord::DeleteNode { id })) if id.as_u64() == nid), "a complete first frame is not returned");
        let r2 = rec.verif_read_record(&mut rd);
        if cut >= 20 { assert!(matches!(&r2, Ok(Some(WalRecord::TxCommit { tx_id })) if tx_id.as_u64() == tid)); }
        else { assert!(!matches!(&r2, Ok(Some(_))), "a torn record was returned"); }
        std::mem::forget(r2);
    } else {
        assert!(!matches!(&r1, Ok(Some(_))), "a torn record was returned");
    }
    kani::cover!(cut == 13);
    kani::cover!(cut == 3);
    std::mem::forget((r1, rd, rec));
});

//@ property: C06
//@ tier: thorough
//@ optional: yes
//@ cap_s: 900
//@ mem_gb: 12
//@ stubs: File::read/read_buf -> symbolic disk, crc32fast::hash -> bitwise CRC-32 model, alloc::fmt::format, core::str::from_utf8 -> accept (validation cut), bincode error Display -> empty
//@ encodes: WalRecovery::read_record (via verif_read_record), checksum verification, bincode decode
//@ symbolic: the position (any bit of payload or checksum of the frame) of a single flipped bit
//@ bound: one frame DeleteNode (10 bytes); flips in the 4-byte length field are outside (a flipped length re-frames the stream)
//@ oracle: a frame with a flipped payload or checksum bit is never returned as a record (it is an error)
wal_h!(c06_single_bit_flip_detected, 34, {
    let nid = small_id();
    unsafe { DLEN = 0; DPOS = 0; }
    put_frame(&WalRecord::DeleteNode { id: NodeId::new(nid) });
    let (byte, bit): (usize, u8) = (kani::any(), kani::any());
    kani::assume(byte >= 4 && byte < 10 && bit < 8);
    unsafe { DISK[byte] ^= 1 << bit; }
    let rec = WalRecovery::new("w");
    let mut rd = BufReader::with_capacity(DISK_CAP, a_file());
    let r1 = rec.verif_read_record(&mut rd);
    assert!(!matches!(&r1, Ok(Some(_))), "a corrupted record was applied");
    kani::cover!(byte == 5);
    kani::cover!(byte == 9);
    std::mem::forget((r1, rd, rec));
});

fn enc_dec(r: &WalRecord) -> WalRecord {
    let data = bincode::serde::encode_to_vec(r, bincode::config::standard()).unwrap();
    let (back, used): (WalRecord, usize) = bincode::serde::decode_from_slice(&data, bincode::config::standard()).unwrap();
    assert!(used == data.len(), "decode does not consume exactly what encode produced");
    std::mem::forget(data);
    back
}

//@ property: C05
//@ tier: thorough
//@ optional: yes
//@ cap_s: 900
//@ mem_gb: 12
//@ stubs: alloc::fmt::format, core::str::from_utf8 -> accept (validation cut), bincode error Display -> empty
//@ encodes: bincode::serde::{encode_to_vec,decode_from_slice} on WalRecord::{DeleteNode,DeleteEdge,TxCommit,TxAbort,Checkpoint} (serde derive), varint integer codec
//@ symbolic: the id of each record: every u64 (all four varint length classes)
//@ bound: the five id-only record variants
//@ oracle: decode(encode(r)) == r and the consumed length equals the encoded length
#[kani::proof]
#[kani::unwind(12)]
#[kani::stub(alloc::fmt::format, fmt_stub)]
#[kani::stub(core::str::from_utf8, from_utf8_stub)]
#[kani::stub(<bincode::error::DecodeError as core::fmt::Display>::fmt, decode_err_fmt)]
#[kani::stub(<bincode::error::EncodeError as core::fmt::Display>::fmt, encode_err_fmt)]
fn c05_record_codec_roundtrip_ids() {
    let id: u64 = kani::any();
    let b = enc_dec(&WalRecord::DeleteNode { id: NodeId::new(id) }); assert!(matches!(&b, WalRecord::DeleteNode { id: x } if x.as_u64() == id)); std::mem::forget(b);
    let b = enc_dec(&WalRecord::DeleteEdge { id: EdgeId::new(id) }); assert!(matches!(&b, WalRecord::DeleteEdge { id: x } if x.as_u64() == id)); std::mem::forget(b);
    let b = enc_dec(&WalRecord::TxCommit { tx_id: TxId::new(id) }); assert!(matches!(&b, WalRecord::TxCommit { tx_id: x } if x.as_u64() == id)); std::mem::forget(b);
    let b = enc_dec(&WalRecord::TxAbort { tx_id: TxId::new(id) }); assert!(matches!(&b, WalRecord::TxAbort { tx_id: x } if x.as_u64() == id)); std::mem::forget(b);
    let b = enc_dec(&WalRecord::Checkpoint { tx_id: TxId::new(id) }); assert!(matches!(&b, WalRecord::Checkpoint { tx_id: x } if x.as_u64() == id)); std::mem::forget(b);
    kani::cover!(id > (1u64 << 40));
    kani::cover!(id < 100);
}

/// one frame with concrete length field (2), SYMBOLIC payload and checksum bytes, cut at a CONCRETE byte length
fn torn_once(cut: usize, content: &[u8; 6]) -> bool {
    unsafe {
        DLEN = 0; DPOS = 0;
        put(&2u32.to_le_bytes()); put(content);
        DLEN = cut;
    }
    let rec = WalRecovery::new("w");
    let mut rd = BufReader::with_capacity(DISK_CAP, a_file());
    let r = rec.verif_read_record(&mut rd);
    let returned = matches!(&r, Ok(Some(_)));
    let clean_eof = matches!(&r, Ok(None));
    assert!(!returned, "a torn record was returned");
    if cut < 4 { assert!(clean_eof, "a file cut inside the length prefix must read as end of log"); }
    std::mem::forget((r, rd, rec));
    clean_eof
}

//@ property: C06
//@ tier: quick
//@ cap_s: 900
//@ mem_gb: 12
//@ stubs: File::read/read_buf -> symbolic disk, crc32fast::hash -> bitwise CRC-32 model, alloc::fmt::format, core::str::from_utf8 -> accept (validation cut), bincode error Display -> empty
//@ encodes: WalRecovery::read_record (via verif_read_record): length prefix, payload and checksum reads over BufReader<File>, end-of-file handling
//@ symbolic: the 2 payload bytes and the 4 checksum bytes of the last frame (every content); the crash point ranges over every byte length 0..=9 inside the 10-byte frame (unrolled: control is concrete so that the decoder is never reached)
//@ bound: one frame with a 2-byte payload; crash points strictly inside the frame
//@ oracle: a record whose frame is torn at any byte is never returned, whatever its bytes; a cut inside the length prefix reads as a clean end of log
#[kani::proof]
#[kani::unwind(34)]
#[kani::stub(alloc::fmt::format, fmt_stub)]
#[kani::stub(<std::fs::File as std::io::Read>::read, file_read_stub)]
#[kani::stub(<std::fs::File as std::io::Read>::read_buf, file_read_buf_stub)]
#[kani::stub(crc32fast::hash, crc32_model)]
#[kani::stub(core::str::from_utf8, from_utf8_stub)]
#[kani::stub(<bincode::error::DecodeError as core::fmt::Display>::fmt, decode_err_fmt)]
#[kani::stub(<bincode::error::EncodeError as core::fmt::Display>::fmt, encode_err_fmt)]
fn c06_torn_frame_never_returned() {
    let content: [u8; 6] = kani::any();
    let e0 = torn_once(0, &content); torn_once(1, &content); torn_once(2, &content); torn_once(3, &content);
    let e4 = torn_once(4, &content); torn_once(5, &content); torn_once(6, &content); torn_once(7, &content); torn_once(8, &content); torn_once(9, &content);
    kani::cover!(e0 && !e4);
}

/// as `torn_once`, payload length L (content = L payload bytes + 4 checksum bytes = C bytes)
fn torn_once_l<const L: usize, const C: usize>(cut: usize, content: &[u8; C]) -> bool {
    unsafe { DLEN = 0; DPOS = 0; put(&(L as u32).to_le_bytes()); put(content); DLEN = cut; }
    let rec = WalRecovery::new("w");
    let mut rd = BufReader::with_capacity(DISK_CAP, a_file());
    let r = rec.verif_read_record(&mut rd);
    let returned = matches!(&r, Ok(Some(_)));
    let clean_eof = matches!(&r, Ok(None));
    assert!(!returned, "a torn record was returned");
    if cut < 4 { assert!(clean_eof); }
    std::mem::forget((r, rd, rec));
    clean_eof
}

//@ property: C06
//@ tier: quick
//@ cap_s: 900
//@ mem_gb: 12
//@ stubs: File::read/read_buf -> symbolic disk, crc32fast::hash -> bitwise CRC-32 model, alloc::fmt::format, core::str::from_utf8 -> accept (validation cut), bincode error Display -> empty
//@ encodes: WalRecovery::read_record (via verif_read_record) over BufReader<File>
//@ symbolic: the 5 payload bytes and 4 checksum bytes (every content); crash point = every byte length 0..=12 inside the 13-byte frame (unrolled)
//@ bound: one frame with a 5-byte payload; crash points strictly inside the frame
//@ oracle: a torn frame is never returned as a record, whatever its bytes
#[kani::proof]
#[kani::unwind(34)]
#[kani::stub(alloc::fmt::format, fmt_stub)]
#[kani::stub(<std::fs::File as std::io::Read>::read, file_read_stub)]
#[kani::stub(<std::fs::File as std::io::Read>::read_buf, file_read_buf_stub)]
#[kani::stub(crc32fast::hash, crc32_model)]
#[kani::stub(core::str::from_utf8, from_utf8_stub)]
#[kani::stub(<bincode::error::DecodeError as core::fmt::Display>::fmt, decode_err_fmt)]
#[kani::stub(<bincode::error::EncodeError as core::fmt::Display>::fmt, encode_err_fmt)]
fn c06_torn_frame_payload5_never_returned() {
    let content: [u8; 9] = kani::any();
    let e0 = torn_once_l::<5, 9>(0, &content); torn_once_l::<5, 9>(1, &content); torn_once_l::<5, 9>(2, &content); torn_once_l::<5, 9>(3, &content);
    let e4 = torn_once_l::<5, 9>(4, &content); torn_once_l::<5, 9>(5, &content); torn_once_l::<5, 9>(6, &content); torn_once_l::<5, 9>(7, &content);
    torn_once_l::<5, 9>(8, &content); torn_once_l::<5, 9>(9, &content); torn_once_l::<5, 9>(10, &content); torn_once_l::<5, 9>(11, &content); torn_once_l::<5, 9>(12, &content);
    kani::cover!(e0 && !e4);
}

//@ property: C06
//@ tier: quick
//@ cap_s: 900
//@ mem_gb: 12
//@ stubs: as c06_torn_frame_never_returned
//@ encodes: WalRecovery::read_record (via verif_read_record) over BufReader<File>
//@ symbolic: the payload byte and the 4 checksum bytes of a one-byte-payload frame; crash point = every byte length 0..=8 (unrolled)
//@ bound: one frame with a 1-byte payload (9 bytes); crash points strictly inside the frame. (A zero-length payload is outside: Kani's allocator model rejects the deallocation of the empty `vec![0u8; 0]`, a modelling artefact.)
//@ oracle: a torn frame is never returned as a record
#[kani::proof]
#[kani::unwind(34)]
#[kani::stub(alloc::fmt::format, fmt_stub)]
#[kani::stub(<std::fs::File as std::io::Read>::read, file_read_stub)]
#[kani::stub(<std::fs::File as std::io::Read>::read_buf, file_read_buf_stub)]
#[kani::stub(crc32fast::hash, crc32_model)]
#[kani::stub(core::str::from_utf8, from_utf8_stub)]
#[kani::stub(<bincode::error::DecodeError as core::fmt::Display>::fmt, decode_err_fmt)]
#[kani::stub(<bincode::error::EncodeError as core::fmt::Display>::fmt, encode_err_fmt)]
fn c06_torn_frame_payload1_never_returned() {
    let content: [u8; 5] = kani::any();
    let e0 = torn_once_l::<1, 5>(0, &content); torn_once_l::<1, 5>(1, &content); torn_once_l::<1, 5>(2, &content); torn_once_l::<1, 5>(3, &content);
    let e4 = torn_once_l::<1, 5>(4, &content); torn_once_l::<1, 5>(5, &content); torn_once_l::<1, 5>(6, &content); torn_once_l::<1, 5>(7, &content); torn_once_l::<1, 5>(8, &content);
    kani::cover!(e0 && !e4);
}
