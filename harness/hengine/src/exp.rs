//! scratch experiments (not registered: no //@ property lines)
use crate::txm::*;
use crate::stubs::*;
use grafeo_engine::transaction::EntityId;
use grafeo_common::types::NodeId;
macro_rules! ex {
    ($name:ident, $s:ident, $ent:expr, $ops:block) => {
        #[kani::proof]
        #[kani::unwind(5)]
        #[kani::stub(parking_lot::RawRwLock::lock_exclusive_slow, lk_slow)]
        #[kani::stub(parking_lot::RawRwLock::lock_shared_slow, lk_sh_slow)]
        #[kani::stub(parking_lot::RawRwLock::unlock_exclusive_slow, ulk_slow)]
        #[kani::stub(parking_lot::RawRwLock::unlock_shared_slow, ulk_sh_slow)]
        #[kani::stub(alloc::fmt::format, fmt_stub)]
        fn $name() {
            let ent: [EntityId; 2] = $ent;
            let iso = [1, 1, 1];
            let mut s = Sim::new(&ent, iso);
            { let $s = &mut s; $ops }
            kani::cover!(true);
            std::mem::forget(s);
        }
    };
}
fn node_any() -> EntityId { EntityId::Node(NodeId::new(kani::any())) }
ex!(exp1_bwc, s, [node_any(), node_any()], { s.b(1); s.w(1,1); s.c(1); });
ex!(exp2_bwc_bw, s, [node_any(), node_any()], { s.b(1); s.w(1,1); s.c(1); s.b(0); s.w(0,0); });
ex!(exp3_full, s, [node_any(), node_any()], { s.b(1); s.w(1,1); s.c(1); s.b(0); s.w(0,0); s.c(0); });
ex!(exp4_full_concrete, s, [EntityId::Node(NodeId::new(7)), EntityId::Node(NodeId::new(7))], { s.b(1); s.w(1,1); s.c(1); s.b(0); s.w(0,0); s.c(0); });
