//! C03 (thorough tier) — every interleaving of two writer scripts [begin, write, commit] (T0 first by symmetry),
//! each in three variants: plain; with an unrelated transaction committing right after the first step (so that the
//! two writers can begin at different epochs); with gc() right after the first commit. Generated, see DESIGN 9.8.
use crate::txm::*;
use crate::stubs::*;
use grafeo_engine::transaction::EntityId;
macro_rules! ihist { ($name:ident, $s:ident, $ops:block) => {
    #[kani::proof]
    #[kani::unwind(5)]
    #[kani::stub(parking_lot::RawRwLock::lock_exclusive_slow, lk_slow)]
    #[kani::stub(parking_lot::RawRwLock::lock_shared_slow, lk_sh_slow)]
    #[kani::stub(parking_lot::RawRwLock::unlock_exclusive_slow, ulk_slow)]
    #[kani::stub(parking_lot::RawRwLock::unlock_shared_slow, ulk_sh_slow)]
    #[kani::stub(alloc::fmt::format, fmt_stub)]
    fn $name() {
        let ent = [any_node(), any_node()];
        let iso = [any_iso(), any_iso(), 1];
        let mut s = Sim::new(&ent, iso);
        { let $s = &mut s; $ops }
        kani::cover!(s.mask & 1 != 0);
        std::mem::forget(s);
    }
} }
//@ property: C03
//@ tier: thorough
//@ cap_s: 400
//@ unwind: 5
//@ stubs: parking_lot slow paths, alloc::fmt::format
//@ encodes: TransactionManager::{begin_with_isolation,record_write,commit,gc,state}
//@ symbolic: both entities (nodes, all 64 id bits each), isolation levels of T0 and T1
//@ bound: history  begin T0; write(T0,e0); commit T0; begin T1; write(T1,e1); commit T1
//@ oracle: every commit outcome equals the first-committer-wins specification (hengine::txm::Model); epochs strictly increase; refused commits change nothing
ihist!(c03_il00_plain, s, { s.b(0); s.w(0,0); s.c(0); s.b(1); s.w(1,1); s.c(1); });
//@ property: C03
//@ tier: thorough
//@ cap_s: 400
//@ unwind: 5
//@ stubs: parking_lot slow paths, alloc::fmt::format
//@ encodes: TransactionManager::{begin_with_isolation,record_write,commit,gc,state}
//@ symbolic: both entities (nodes, all 64 id bits each), isolation levels of T0 and T1
//@ bound: history  begin T0; begin T2; commit T2; write(T0,e0); commit T0; begin T1; write(T1,e1); commit T1
//@ oracle: every commit outcome equals the first-committer-wins specification (hengine::txm::Model); epochs strictly increase; refused commits change nothing
ihist!(c03_il00_bump, s, { s.b(0); s.b(2); s.c(2); s.w(0,0); s.c(0); s.b(1); s.w(1,1); s.c(1); });
//@ property: C03
//@ tier: thorough
//@ cap_s: 400
//@ unwind: 5
//@ stubs: parking_lot slow paths, alloc::fmt::format
//@ encodes: TransactionManager::{begin_with_isolation,record_write,commit,gc,state}
//@ symbolic: both entities (nodes, all 64 id bits each), isolation levels of T0 and T1
//@ bound: history  begin T0; write(T0,e0); commit T0; gc; begin T1; write(T1,e1); commit T1
//@ oracle: every commit outcome equals the first-committer-wins specification (hengine::txm::Model); epochs strictly increase; refused commits change nothing
ihist!(c03_il00_gc, s, { s.b(0); s.w(0,0); s.c(0); s.g(); s.b(1); s.w(1,1); s.c(1); });
//@ property: C03
//@ tier: thorough
//@ cap_s: 400
//@ unwind: 5
//@ stubs: parking_lot slow paths, alloc::fmt::format
//@ encodes: TransactionManager::{begin_with_isolation,record_write,commit,gc,state}
//@ symbolic: both entities (nodes, all 64 id bits each), isolation levels of T0 and T1
//@ bound: history  begin T0; write(T0,e0); begin T1; commit T0; write(T1,e1); commit T1
//@ oracle: every commit outcome equals the first-committer-wins specification (hengine::txm::Model); epochs strictly increase; refused commits change nothing
ihist!(c03_il01_plain, s, { s.b(0); s.w(0,0); s.b(1); s.c(0); s.w(1,1); s.c(1); });
//@ property: C03
//@ tier: thorough
//@ cap_s: 400
//@ unwind: 5
//@ stubs: parking_lot slow paths, alloc::fmt::format
//@ encodes: TransactionManager::{begin_with_isolation,record_write,commit,gc,state}
//@ symbolic: both entities (nodes, all 64 id bits each), isolation levels of T0 and T1
//@ bound: history  begin T0; begin T2; commit T2; write(T0,e0); begin T1; commit T0; write(T1,e1); commit T1
//@ oracle: every commit outcome equals the first-committer-wins specification (hengine::txm::Model); epochs strictly increase; refused commits change nothing
ihist!(c03_il01_bump, s, { s.b(0); s.b(2); s.c(2); s.w(0,0); s.b(1); s.c(0); s.w(1,1); s.c(1); });
//@ property: C03
//@ tier: thorough
//@ cap_s: 400
//@ unwind: 5
//@ stubs: parking_lot slow paths, alloc::fmt::format
//@ encodes: TransactionManager::{begin_with_isolation,record_write,commit,gc,state}
//@ symbolic: both entities (nodes, all 64 id bits each), isolation levels of T0 and T1
//@ bound: history  begin T0; write(T0,e0); begin T1; commit T0; gc; write(T1,e1); commit T1
//@ oracle: every commit outcome equals the first-committer-wins specification (hengine::txm::Model); epochs strictly increase; refused commits change nothing
ihist!(c03_il01_gc, s, { s.b(0); s.w(0,0); s.b(1); s.c(0); s.g(); s.w(1,1); s.c(1); });
//@ property: C03
//@ tier: thorough
//@ cap_s: 400
//@ unwind: 5
//@ stubs: parking_lot slow paths, alloc::fmt::format
//@ encodes: TransactionManager::{begin_with_isolation,record_write,commit,gc,state}
//@ symbolic: both entities (nodes, all 64 id bits each), isolation levels of T0 and T1
//@ bound: history  begin T0; write(T0,e0); begin T1; write(T1,e1); commit T0; commit T1
//@ oracle: every commit outcome equals the first-committer-wins specification (hengine::txm::Model); epochs strictly increase; refused commits change nothing
ihist!(c03_il02_plain, s, { s.b(0); s.w(0,0); s.b(1); s.w(1,1); s.c(0); s.c(1); });
//@ property: C03
//@ tier: thorough
//@ cap_s: 400
//@ unwind: 5
//@ stubs: parking_lot slow paths, alloc::fmt::format
//@ encodes: TransactionManager::{begin_with_isolation,record_write,commit,gc,state}
//@ symbolic: both entities (nodes, all 64 id bits each), isolation levels of T0 and T1
//@ bound: history  begin T0; begin T2; commit T2; write(T0,e0); begin T1; write(T1,e1); commit T0; commit T1
//@ oracle: every commit outcome equals the first-committer-wins specification (hengine::txm::Model); epochs strictly increase; refused commits change nothing
ihist!(c03_il02_bump, s, { s.b(0); s.b(2); s.c(2); s.w(0,0); s.b(1); s.w(1,1); s.c(0); s.c(1); });
//@ property: C03
//@ tier: thorough
//@ cap_s: 400
//@ unwind: 5
//@ stubs: parking_lot slow paths, alloc::fmt::format
//@ encodes: TransactionManager::{begin_with_isolation,record_write,commit,gc,state}
//@ symbolic: both entities (nodes, all 64 id bits each), isolation levels of T0 and T1
//@ bound: history  begin T0; write(T0,e0); begin T1; write(T1,e1); commit T0; gc; commit T1
//@ oracle: every commit outcome equals the first-committer-wins specification (hengine::txm::Model); epochs strictly increase; refused commits change nothing
ihist!(c03_il02_gc, s, { s.b(0); s.w(0,0); s.b(1); s.w(1,1); s.c(0); s.g(); s.c(1); });
//@ property: C03
//@ tier: thorough
//@ cap_s: 400
//@ unwind: 5
//@ stubs: parking_lot slow paths, alloc::fmt::format
//@ encodes: TransactionManager::{begin_with_isolation,record_write,commit,gc,state}
//@ symbolic: both entities (nodes, all 64 id bits each), isolation levels of T0 and T1
//@ bound: history  begin T0; write(T0,e0); begin T1; write(T1,e1); commit T1; commit T0
//@ oracle: every commit outcome equals the first-committer-wins specification (hengine::txm::Model); epochs strictly increase; refused commits change nothing
ihist!(c03_il03_plain, s, { s.b(0); s.w(0,0); s.b(1); s.w(1,1); s.c(1); s.c(0); });
//@ property: C03
//@ tier: thorough
//@ cap_s: 400
//@ unwind: 5
//@ stubs: parking_lot slow paths, alloc::fmt::format
//@ encodes: TransactionManager::{begin_with_isolation,record_write,commit,gc,state}
//@ symbolic: both entities (nodes, all 64 id bits each), isolation levels of T0 and T1
//@ bound: history  begin T0; begin T2; commit T2; write(T0,e0); begin T1; write(T1,e1); commit T1; commit T0
//@ oracle: every commit outcome equals the first-committer-wins specification (hengine::txm::Model); epochs strictly increase; refused commits change nothing
ihist!(c03_il03_bump, s, { s.b(0); s.b(2); s.c(2); s.w(0,0); s.b(1); s.w(1,1); s.c(1); s.c(0); });
//@ property: C03
//@ tier: thorough
//@ cap_s: 400
//@ unwind: 5
//@ stubs: parking_lot slow paths, alloc::fmt::format
//@ encodes: TransactionManager::{begin_with_isolation,record_write,commit,gc,state}
//@ symbolic: both entities (nodes, all 64 id bits each), isolation levels of T0 and T1
//@ bound: history  begin T0; write(T0,e0); begin T1; write(T1,e1); commit T1; gc; commit T0
//@ oracle: every commit outcome equals the first-committer-wins specification (hengine::txm::Model); epochs strictly increase; refused commits change nothing
ihist!(c03_il03_gc, s, { s.b(0); s.w(0,0); s.b(1); s.w(1,1); s.c(1); s.g(); s.c(0); });
//@ property: C03
//@ tier: thorough
//@ cap_s: 400
//@ unwind: 5
//@ stubs: parking_lot slow paths, alloc::fmt::format
//@ encodes: TransactionManager::{begin_with_isolation,record_write,commit,gc,state}
//@ symbolic: both entities (nodes, all 64 id bits each), isolation levels of T0 and T1
//@ bound: history  begin T0; begin T1; write(T0,e0); commit T0; write(T1,e1); commit T1
//@ oracle: every commit outcome equals the first-committer-wins specification (hengine::txm::Model); epochs strictly increase; refused commits change nothing
ihist!(c03_il04_plain, s, { s.b(0); s.b(1); s.w(0,0); s.c(0); s.w(1,1); s.c(1); });
//@ property: C03
//@ tier: thorough
//@ cap_s: 400
//@ unwind: 5
//@ stubs: parking_lot slow paths, alloc::fmt::format
//@ encodes: TransactionManager::{begin_with_isolation,record_write,commit,gc,state}
//@ symbolic: both entities (nodes, all 64 id bits each), isolation levels of T0 and T1
//@ bound: history  begin T0; begin T2; commit T2; begin T1; write(T0,e0); commit T0; write(T1,e1); commit T1
//@ oracle: every commit outcome equals the first-committer-wins specification (hengine::txm::Model); epochs strictly increase; refused commits change nothing
ihist!(c03_il04_bump, s, { s.b(0); s.b(2); s.c(2); s.b(1); s.w(0,0); s.c(0); s.w(1,1); s.c(1); });
//@ property: C03
//@ tier: thorough
//@ cap_s: 400
//@ unwind: 5
//@ stubs: parking_lot slow paths, alloc::fmt::format
//@ encodes: TransactionManager::{begin_with_isolation,record_write,commit,gc,state}
//@ symbolic: both entities (nodes, all 64 id bits each), isolation levels of T0 and T1
//@ bound: history  begin T0; begin T1; write(T0,e0); commit T0; gc; write(T1,e1); commit T1
//@ oracle: every commit outcome equals the first-committer-wins specification (hengine::txm::Model); epochs strictly increase; refused commits change nothing
ihist!(c03_il04_gc, s, { s.b(0); s.b(1); s.w(0,0); s.c(0); s.g(); s.w(1,1); s.c(1); });
//@ property: C03
//@ tier: thorough
//@ cap_s: 400
//@ unwind: 5
//@ stubs: parking_lot slow paths, alloc::fmt::format
//@ encodes: TransactionManager::{begin_with_isolation,record_write,commit,gc,state}
//@ symbolic: both entities (nodes, all 64 id bits each), isolation levels of T0 and T1
//@ bound: history  begin T0; begin T1; write(T0,e0); write(T1,e1); commit T0; commit T1
//@ oracle: every commit outcome equals the first-committer-wins specification (hengine::txm::Model); epochs strictly increase; refused commits change nothing
ihist!(c03_il05_plain, s, { s.b(0); s.b(1); s.w(0,0); s.w(1,1); s.c(0); s.c(1); });
//@ property: C03
//@ tier: thorough
//@ cap_s: 400
//@ unwind: 5
//@ stubs: parking_lot slow paths, alloc::fmt::format
//@ encodes: TransactionManager::{begin_with_isolation,record_write,commit,gc,state}
//@ symbolic: both entities (nodes, all 64 id bits each), isolation levels of T0 and T1
//@ bound: history  begin T0; begin T2; commit T2; begin T1; write(T0,e0); write(T1,e1); commit T0; commit T1
//@ oracle: every commit outcome equals the first-committer-wins specification (hengine::txm::Model); epochs strictly increase; refused commits change nothing
ihist!(c03_il05_bump, s, { s.b(0); s.b(2); s.c(2); s.b(1); s.w(0,0); s.w(1,1); s.c(0); s.c(1); });
//@ property: C03
//@ tier: thorough
//@ cap_s: 400
//@ unwind: 5
//@ stubs: parking_lot slow paths, alloc::fmt::format
//@ encodes: TransactionManager::{begin_with_isolation,record_write,commit,gc,state}
//@ symbolic: both entities (nodes, all 64 id bits each), isolation levels of T0 and T1
//@ bound: history  begin T0; begin T1; write(T0,e0); write(T1,e1); commit T0; gc; commit T1
//@ oracle: every commit outcome equals the first-committer-wins specification (hengine::txm::Model); epochs strictly increase; refused commits change nothing
ihist!(c03_il05_gc, s, { s.b(0); s.b(1); s.w(0,0); s.w(1,1); s.c(0); s.g(); s.c(1); });
//@ property: C03
//@ tier: thorough
//@ cap_s: 400
//@ unwind: 5
//@ stubs: parking_lot slow paths, alloc::fmt::format
//@ encodes: TransactionManager::{begin_with_isolation,record_write,commit,gc,state}
//@ symbolic: both entities (nodes, all 64 id bits each), isolation levels of T0 and T1
//@ bound: history  begin T0; begin T1; write(T0,e0); write(T1,e1); commit T1; commit T0
//@ oracle: every commit outcome equals the first-committer-wins specification (hengine::txm::Model); epochs strictly increase; refused commits change nothing
ihist!(c03_il06_plain, s, { s.b(0); s.b(1); s.w(0,0); s.w(1,1); s.c(1); s.c(0); });
//@ property: C03
//@ tier: thorough
//@ cap_s: 400
//@ unwind: 5
//@ stubs: parking_lot slow paths, alloc::fmt::format
//@ encodes: TransactionManager::{begin_with_isolation,record_write,commit,gc,state}
//@ symbolic: both entities (nodes, all 64 id bits each), isolation levels of T0 and T1
//@ bound: history  begin T0; begin T2; commit T2; begin T1; write(T0,e0); write(T1,e1); commit T1; commit T0
//@ oracle: every commit outcome equals the first-committer-wins specification (hengine::txm::Model); epochs strictly increase; refused commits change nothing
ihist!(c03_il06_bump, s, { s.b(0); s.b(2); s.c(2); s.b(1); s.w(0,0); s.w(1,1); s.c(1); s.c(0); });
//@ property: C03
//@ tier: thorough
//@ cap_s: 400
//@ unwind: 5
//@ stubs: parking_lot slow paths, alloc::fmt::format
//@ encodes: TransactionManager::{begin_with_isolation,record_write,commit,gc,state}
//@ symbolic: both entities (nodes, all 64 id bits each), isolation levels of T0 and T1
//@ bound: history  begin T0; begin T1; write(T0,e0); write(T1,e1); commit T1; gc; commit T0
//@ oracle: every commit outcome equals the first-committer-wins specification (hengine::txm::Model); epochs strictly increase; refused commits change nothing
ihist!(c03_il06_gc, s, { s.b(0); s.b(1); s.w(0,0); s.w(1,1); s.c(1); s.g(); s.c(0); });
//@ property: C03
//@ tier: thorough
//@ cap_s: 400
//@ unwind: 5
//@ stubs: parking_lot slow paths, alloc::fmt::format
//@ encodes: TransactionManager::{begin_with_isolation,record_write,commit,gc,state}
//@ symbolic: both entities (nodes, all 64 id bits each), isolation levels of T0 and T1
//@ bound: history  begin T0; begin T1; write(T1,e1); write(T0,e0); commit T0; commit T1
//@ oracle: every commit outcome equals the first-committer-wins specification (hengine::txm::Model); epochs strictly increase; refused commits change nothing
ihist!(c03_il07_plain, s, { s.b(0); s.b(1); s.w(1,1); s.w(0,0); s.c(0); s.c(1); });
//@ property: C03
//@ tier: thorough
//@ cap_s: 400
//@ unwind: 5
//@ stubs: parking_lot slow paths, alloc::fmt::format
//@ encodes: TransactionManager::{begin_with_isolation,record_write,commit,gc,state}
//@ symbolic: both entities (nodes, all 64 id bits each), isolation levels of T0 and T1
//@ bound: history  begin T0; begin T2; commit T2; begin T1; write(T1,e1); write(T0,e0); commit T0; commit T1
//@ oracle: every commit outcome equals the first-committer-wins specification (hengine::txm::Model); epochs strictly increase; refused commits change nothing
ihist!(c03_il07_bump, s, { s.b(0); s.b(2); s.c(2); s.b(1); s.w(1,1); s.w(0,0); s.c(0); s.c(1); });
//@ property: C03
//@ tier: thorough
//@ cap_s: 400
//@ unwind: 5
//@ stubs: parking_lot slow paths, alloc::fmt::format
//@ encodes: TransactionManager::{begin_with_isolation,record_write,commit,gc,state}
//@ symbolic: both entities (nodes, all 64 id bits each), isolation levels of T0 and T1
//@ bound: history  begin T0; begin T1; write(T1,e1); write(T0,e0); commit T0; gc; commit T1
//@ oracle: every commit outcome equals the first-committer-wins specification (hengine::txm::Model); epochs strictly increase; refused commits change nothing
ihist!(c03_il07_gc, s, { s.b(0); s.b(1); s.w(1,1); s.w(0,0); s.c(0); s.g(); s.c(1); });
//@ property: C03
//@ tier: thorough
//@ cap_s: 400
//@ unwind: 5
//@ stubs: parking_lot slow paths, alloc::fmt::format
//@ encodes: TransactionManager::{begin_with_isolation,record_write,commit,gc,state}
//@ symbolic: both entities (nodes, all 64 id bits each), isolation levels of T0 and T1
//@ bound: history  begin T0; begin T1; write(T1,e1); write(T0,e0); commit T1; commit T0
//@ oracle: every commit outcome equals the first-committer-wins specification (hengine::txm::Model); epochs strictly increase; refused commits change nothing
ihist!(c03_il08_plain, s, { s.b(0); s.b(1); s.w(1,1); s.w(0,0); s.c(1); s.c(0); });
//@ property: C03
//@ tier: thorough
//@ cap_s: 400
//@ unwind: 5
//@ stubs: parking_lot slow paths, alloc::fmt::format
//@ encodes: TransactionManager::{begin_with_isolation,record_write,commit,gc,state}
//@ symbolic: both entities (nodes, all 64 id bits each), isolation levels of T0 and T1
//@ bound: history  begin T0; begin T2; commit T2; begin T1; write(T1,e1); write(T0,e0); commit T1; commit T0
//@ oracle: every commit outcome equals the first-committer-wins specification (hengine::txm::Model); epochs strictly increase; refused commits change nothing
ihist!(c03_il08_bump, s, { s.b(0); s.b(2); s.c(2); s.b(1); s.w(1,1); s.w(0,0); s.c(1); s.c(0); });
//@ property: C03
//@ tier: thorough
//@ cap_s: 400
//@ unwind: 5
//@ stubs: parking_lot slow paths, alloc::fmt::format
//@ encodes: TransactionManager::{begin_with_isolation,record_write,commit,gc,state}
//@ symbolic: both entities (nodes, all 64 id bits each), isolation levels of T0 and T1
//@ bound: history  begin T0; begin T1; write(T1,e1); write(T0,e0); commit T1; gc; commit T0
//@ oracle: every commit outcome equals the first-committer-wins specification (hengine::txm::Model); epochs strictly increase; refused commits change nothing
ihist!(c03_il08_gc, s, { s.b(0); s.b(1); s.w(1,1); s.w(0,0); s.c(1); s.g(); s.c(0); });
//@ property: C03
//@ tier: thorough
//@ cap_s: 400
//@ unwind: 5
//@ stubs: parking_lot slow paths, alloc::fmt::format
//@ encodes: TransactionManager::{begin_with_isolation,record_write,commit,gc,state}
//@ symbolic: both entities (nodes, all 64 id bits each), isolation levels of T0 and T1
//@ bound: history  begin T0; begin T1; write(T1,e1); commit T1; write(T0,e0); commit T0
//@ oracle: every commit outcome equals the first-committer-wins specification (hengine::txm::Model); epochs strictly increase; refused commits change nothing
ihist!(c03_il09_plain, s, { s.b(0); s.b(1); s.w(1,1); s.c(1); s.w(0,0); s.c(0); });
//@ property: C03
//@ tier: thorough
//@ cap_s: 400
//@ unwind: 5
//@ stubs: parking_lot slow paths, alloc::fmt::format
//@ encodes: TransactionManager::{begin_with_isolation,record_write,commit,gc,state}
//@ symbolic: both entities (nodes, all 64 id bits each), isolation levels of T0 and T1
//@ bound: history  begin T0; begin T2; commit T2; begin T1; write(T1,e1); commit T1; write(T0,e0); commit T0
//@ oracle: every commit outcome equals the first-committer-wins specification (hengine::txm::Model); epochs strictly increase; refused commits change nothing
ihist!(c03_il09_bump, s, { s.b(0); s.b(2); s.c(2); s.b(1); s.w(1,1); s.c(1); s.w(0,0); s.c(0); });
//@ property: C03
//@ tier: thorough
//@ cap_s: 400
//@ unwind: 5
//@ stubs: parking_lot slow paths, alloc::fmt::format
//@ encodes: TransactionManager::{begin_with_isolation,record_write,commit,gc,state}
//@ symbolic: both entities (nodes, all 64 id bits each), isolation levels of T0 and T1
//@ bound: history  begin T0; begin T1; write(T1,e1); commit T1; gc; write(T0,e0); commit T0
//@ oracle: every commit outcome equals the first-committer-wins specification (hengine::txm::Model); epochs strictly increase; refused commits change nothing
ihist!(c03_il09_gc, s, { s.b(0); s.b(1); s.w(1,1); s.c(1); s.g(); s.w(0,0); s.c(0); });
