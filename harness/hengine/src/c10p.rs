//! C10 — the planner's own decisions that replace a plain scan + filter: the range-pattern extraction that feeds the
//! range path (find_nodes_in_range) and the zone-map pruning decision, entered through the cfg(kani) wrappers (hook H7).
use crate::stubs::*;
use grafeo_common::types::Value;
use grafeo_core::graph::lpg::LpgStore;
use grafeo_engine::query::plan::{BinaryOp, LogicalExpression};
use grafeo_engine::query::planner::Planner;
use std::sync::Arc;

macro_rules! plan_h {
    ($name:ident, $body:block) => {
        #[kani::proof]
        #[kani::unwind(5)]
        #[kani::stub(parking_lot::RawRwLock::lock_exclusive_slow, lk_slow)]
        #[kani::stub(parking_lot::RawRwLock::lock_shared_slow, lk_sh_slow)]
        #[kani::stub(parking_lot::RawRwLock::unlock_exclusive_slow, ulk_slow)]
        #[kani::stub(parking_lot::RawRwLock::unlock_shared_slow, ulk_sh_slow)]
        #[kani::stub(parking_lot::RawMutex::lock_slow, mx_lock_slow)]
        #[kani::stub(parking_lot::RawMutex::unlock_slow, mx_unlock_slow)]
        #[kani::stub(alloc::fmt::format, fmt_stub)]
        #[kani::stub(std::hash::RandomState::new, std_rs_new)]
        #[kani::stub(ahash::RandomState::new, ahash_rs_new)]
        #[kani::stub(dashmap::RawRwLock::lock_exclusive_slow, dm_lock_excl_slow)]
        #[kani::stub(dashmap::RawRwLock::unlock_exclusive_slow, dm_unlock_excl_slow)]
        #[kani::stub(dashmap::RawRwLock::lock_shared_slow, dm_lock_shared_slow)]
        #[kani::stub(dashmap::RawRwLock::unlock_shared_slow, dm_unlock_shared_slow)]
        fn $name() $body
    };
}
fn prop_e() -> Box<LogicalExpression> { Box::new(LogicalExpression::Property { variable: String::from("n"), property: String::from("k") }) }
fn lit_e(v: i64) -> Box<LogicalExpression> { Box::new(LogicalExpression::Literal(Value::Int64(v))) }
fn cmp_op(c: u8) -> BinaryOp { match c { 0 => BinaryOp::Lt, 1 => BinaryOp::Le, 2 => BinaryOp::Gt, _ => BinaryOp::Ge } }
fn holds(c: u8, x: i64, v: i64) -> bool { match c { 0 => x < v, 1 => x <= v, 2 => x > v, _ => x >= v } }
/// one side of the conjunction: `n.k op v` (flip = false) or `v op' n.k` with the mirrored operator (flip = true); both mean x op v
fn side(c: u8, v: i64, flip: bool) -> Box<LogicalExpression> {
    if flip { let m = match c { 0 => 2, 1 => 3, 2 => 0, _ => 1 }; Box::new(LogicalExpression::Binary { left: lit_e(v), op: cmp_op(m), right: prop_e() }) }
    else { Box::new(LogicalExpression::Binary { left: prop_e(), op: cmp_op(c), right: lit_e(v) }) }
}

//@ property: C10
//@ tier: quick
//@ cap_s: 900
//@ mem_gb: 12
//@ unwind: 5
//@ unwindset: as std::clone::Clone>::clone$:1; ^std::ptr::drop_glue::<:1; ^std::ptr::drop_in_place::<:1
//@ stubs: parking_lot slow paths, alloc::fmt::format, RandomState::new, dashmap lock slow paths
//@ encodes: Planner::{new,extract_between_predicate,extract_range_predicate} (hook H7), LpgStore::new
//@ symbolic: both comparison operators (each of < <= > >=: all 16 pairs), both bounds and the probed value (all i64), and for each conjunct whether it is written `n.k op v` or mirrored `v op' n.k`
//@ bound: a conjunction of two comparisons of the same property with Int64 literals (the shape the range path accepts); recursion through clone/drop glue bounded at 1 with unwinding assertions on
//@ oracle: when the planner extracts (min, max, min_inclusive, max_inclusive), membership of every i64 x in that range equals the truth of the conjunction on x (so the range path returns the rows the plain filter returns)
plan_h!(c10_planner_range_extraction, {
    let (c1, c2): (u8, u8) = (kani::any(), kani::any());
    kani::assume(c1 < 4 && c2 < 4);
    let (a, b, x): (i64, i64, i64) = (kani::any(), kani::any(), kani::any());
    let (f1, f2): (bool, bool) = (kani::any(), kani::any());
    let e = LogicalExpression::Binary { left: side(c1, a, f1), op: BinaryOp::And, right: side(c2, b, f2) };
    let pl = Planner::new(Arc::new(LpgStore::new()));
    let r = pl.verif_extract_between_predicate(&e);
    let truth = holds(c1, x, a) && holds(c2, x, b);
    match &r {
        Some((_, _, Value::Int64(lo), Value::Int64(hi), li, ui)) => {
            let in_range = (if *li { x >= *lo } else { x > *lo }) && (if *ui { x <= *hi } else { x < *hi });
            assert!(in_range == truth, "the extracted range is not the set the conjunction describes");
        }
        Some(_) => assert!(false, "bounds changed kind"),
        None => {}
    }
    kani::cover!(r.is_some() && c1 == 1 && c2 == 2);
    kani::cover!(r.is_some() && f1 && !f2);
    std::mem::forget((e, pl, r));
});

fn cmp6(c: u8) -> BinaryOp { match c { 0 => BinaryOp::Eq, 1 => BinaryOp::Ne, 2 => BinaryOp::Lt, 3 => BinaryOp::Le, 4 => BinaryOp::Gt, _ => BinaryOp::Ge } }
fn holds6(c: u8, x: i64, v: i64) -> bool { match c { 0 => x == v, 1 => x != v, 2 => x < v, 3 => x <= v, 4 => x > v, _ => x >= v } }
/// `n.k op l` (flip false) or `l op n.k` (flip true); returns the expression and whether it is true for the stored value v
fn cmp_side(c: u8, v: i64, l: i64, flip: bool) -> (Box<LogicalExpression>, bool) {
    if flip { (Box::new(LogicalExpression::Binary { left: lit_e(l), op: cmp6(c), right: prop_e() }), holds6(c, l, v)) }
    else { (Box::new(LogicalExpression::Binary { left: prop_e(), op: cmp6(c), right: lit_e(l) }), holds6(c, v, l)) }
}

//@ property: C10
//@ tier: thorough
//@ optional: yes
//@ cap_s: 1500
//@ mem_gb: 18
//@ unwind: 5
//@ unwindset: as std::clone::Clone>::clone$:1; ^std::ptr::drop_glue::<:1; ^std::ptr::drop_in_place::<:1; check_zone_map_for_predicate$:1
//@ stubs: parking_lot slow paths, alloc::fmt::format, RandomState::new, dashmap lock slow paths
//@ encodes: Planner::check_zone_map_for_predicate (hook H7), LpgStore::{new,create_node,set_node_property,node_property_might_match}, PropertyStorage::might_match
//@ symbolic: the stored Int64 property value, the comparison operator (= <> < <= > >=), the Int64 literal, whether the literal is on the left (mirrored form)
//@ bound: a store with one node and one Int64 property; a single comparison
//@ oracle: if the comparison is true for the only node, the planner's pruning decision is not "no match" (the operator mirroring for `literal op property` is exercised)
plan_h!(c10_planner_zone_map_single, {
    let st = LpgStore::new();
    let n = st.create_node(&["A"]);
    let v: i64 = kani::any();
    st.set_node_property(n, "k", Value::Int64(v));
    let pl = Planner::new(Arc::new(st));
    let c1: u8 = kani::any();
    kani::assume(c1 < 6);
    let l1: i64 = kani::any();
    let f1: bool = kani::any();
    let (e1, t1) = cmp_side(c1, v, l1, f1);
    let r1 = pl.verif_check_zone_map_for_predicate(&e1);
    if t1 { assert!(r1 != Some(false), "the planner prunes a scan although the only node satisfies the comparison"); }
    kani::cover!(r1 == Some(false));
    kani::cover!(t1 && f1 && c1 == 2);
    std::mem::forget((e1, pl));
});

//@ property: C10
//@ tier: thorough
//@ optional: yes
//@ cap_s: 1500
//@ mem_gb: 18
//@ unwind: 5
//@ unwindset: as std::clone::Clone>::clone$:1; ^std::ptr::drop_glue::<:1; ^std::ptr::drop_in_place::<:1; check_zone_map_for_predicate$:2
//@ stubs: parking_lot slow paths, alloc::fmt::format, RandomState::new, dashmap lock slow paths
//@ encodes: Planner::check_zone_map_for_predicate (hook H7), LpgStore::{new,create_node,set_node_property,node_property_might_match}, PropertyStorage::might_match
//@ symbolic: the stored Int64 property value, two comparison operators (= <> < <= > >=), two Int64 literals, per comparison whether the literal is on the left (mirrored form), AND or OR
//@ bound: a store with one node and one Int64 property; a single comparison and one AND/OR level
//@ oracle: if the comparison (compound predicate) is true for the only node, the planner's pruning decision is not "no match"
plan_h!(c10_planner_zone_map_decision, {
    let st = LpgStore::new();
    let n = st.create_node(&["A"]);
    let v: i64 = kani::any();
    st.set_node_property(n, "k", Value::Int64(v));
    let pl = Planner::new(Arc::new(st));
    let (c1, c2): (u8, u8) = (kani::any(), kani::any());
    kani::assume(c1 < 6 && c2 < 6);
    let (l1, l2): (i64, i64) = (kani::any(), kani::any());
    let (f1, f2): (bool, bool) = (kani::any(), kani::any());
    let (e1, t1) = cmp_side(c1, v, l1, f1);
    let r1 = pl.verif_check_zone_map_for_predicate(&e1);
    if t1 { assert!(r1 != Some(false), "the planner prunes a scan although the only node satisfies the comparison"); }
    let (e2, t2) = cmp_side(c2, v, l2, f2);
    let conj: bool = kani::any();
    let e = LogicalExpression::Binary { left: e1, op: if conj { BinaryOp::And } else { BinaryOp::Or }, right: e2 };
    let r = pl.verif_check_zone_map_for_predicate(&e);
    let truth = if conj { t1 && t2 } else { t1 || t2 };
    if truth { assert!(r != Some(false), "the planner prunes a scan although the only node satisfies the compound predicate"); }
    kani::cover!(r1 == Some(false));
    kani::cover!(truth && f1 && c1 == 2);
    std::mem::forget((e, pl));
});
