//! C04 — serializable transactions: the SSI refusal rule and its converses, on concrete skeletons
//! with symbolic entities and isolation levels.
use crate::txm::*;
use crate::stubs::*;
use grafeo_engine::transaction::EntityId;

macro_rules! hist4 {
    ($name:ident, $s:ident, $ent:expr, $iso:expr, $ops:block, $cover:expr) => {
        #[kani::proof]
        #[kani::unwind(5)]
        #[kani::stub(parking_lot::RawRwLock::lock_exclusive_slow, lk_slow)]
        #[kani::stub(parking_lot::RawRwLock::lock_shared_slow, lk_sh_slow)]
        #[kani::stub(parking_lot::RawRwLock::unlock_exclusive_slow, ulk_slow)]
        #[kani::stub(parking_lot::RawRwLock::unlock_shared_slow, ulk_sh_slow)]
        #[kani::stub(alloc::fmt::format, fmt_stub)]
        fn $name() {
            let ent = $ent;
            let iso: [u8; 3] = $iso;
            let mut s = Sim::new(&ent, iso);
            { let $s = &mut s; $ops }
            let mask = s.mask;
            let same = ent[0] == ent[1];
            let c: fn(u8, bool) -> bool = $cover;
            kani::cover!(c(mask, same));
            std::mem::forget(s);
        }
    };
}

//@ property: C04
//@ tier: quick
//@ cap_s: 400
//@ unwind: 5
//@ stubs: parking_lot slow paths, alloc::fmt::format
//@ encodes: TransactionManager::{begin_with_isolation,record_read,record_write,commit,state}
//@ symbolic: two entities (nodes, all 64 id bits), whether they coincide
//@ bound: write-skew shape, all Serializable: begin T0; begin T1; read(T0,e0); read(T1,e1); write(T0,e1); write(T1,e0); commit T0; commit T1
//@ oracle: commit(T) = SerializationFailure iff T is Serializable, has writes, is not write-conflicted and read an entity written by a transaction that committed after T began; else accepted / WriteConflict per the first-committer rule
hist4!(c04_write_skew, s, [any_node(), any_node()], [2, 2, 2], { s.b(0); s.b(1); s.r(0,0); s.r(1,1); s.w(0,1); s.w(1,0); s.c(0); s.c(1); }, |m, same| m == 0b01 && !same);

//@ property: C04
//@ tier: quick
//@ cap_s: 400
//@ unwind: 5
//@ stubs: parking_lot slow paths, alloc::fmt::format
//@ encodes: TransactionManager::{begin_with_isolation,record_read,record_write,commit,state}
//@ symbolic: two entities, isolation level of each transaction (mixes of levels)
//@ bound: same write-skew shape with symbolic isolation levels
//@ oracle: as c04_write_skew; a non-Serializable transaction is never refused for a read-write conflict
hist4!(c04_write_skew_mixed_levels, s, [any_node(), any_node()], [any_iso(), any_iso(), 1], { s.b(0); s.b(1); s.r(0,0); s.r(1,1); s.w(0,1); s.w(1,0); s.c(0); s.c(1); }, |m, same| m == 0b11 && !same);

//@ property: C04
//@ tier: quick
//@ cap_s: 400
//@ unwind: 5
//@ stubs: parking_lot slow paths, alloc::fmt::format
//@ encodes: TransactionManager::{begin_with_isolation,record_read,record_write,commit,state}
//@ symbolic: two entities, isolation levels
//@ bound: read-only transaction: begin T0; begin T1; read(T0,e0); write(T1,e1); commit T1; commit T0
//@ oracle: a read-only transaction is never refused, whatever it read and whoever committed meanwhile
hist4!(c04_read_only_never_refused, s, [any_node(), any_node()], [any_iso(), any_iso(), 1], { s.b(0); s.b(1); s.r(0,0); s.w(1,1); s.c(1); s.c(0); }, |m, same| m == 0b11 && same);

//@ property: C04
//@ tier: quick
//@ cap_s: 400
//@ unwind: 5
//@ stubs: parking_lot slow paths, alloc::fmt::format
//@ encodes: TransactionManager::{begin_with_isolation,record_read,record_write,commit,state}
//@ symbolic: two entities, isolation levels
//@ bound: non-overlapping: begin T1; read(T1,e1); write(T1,e1); commit T1; begin T0; read(T0,e0); write(T0,e0); commit T0
//@ oracle: a transaction that began after the other committed is never refused (neither write conflict nor serialization failure)
hist4!(c04_non_overlapping_never_refused, s, [any_node(), any_node()], [any_iso(), any_iso(), 1], { s.b(1); s.r(1,1); s.w(1,1); s.c(1); s.b(0); s.r(0,0); s.w(0,0); s.c(0); }, |m, same| m == 0b11 && same);

//@ property: C04
//@ tier: quick
//@ cap_s: 400
//@ unwind: 5
//@ stubs: parking_lot slow paths, alloc::fmt::format
//@ encodes: TransactionManager::{begin_with_isolation,record_read,record_write,commit,gc,state}
//@ symbolic: two entities, isolation levels
//@ bound: lost-update shape with clean-up: begin T0; begin T1; read(T0,e0); read(T1,e0); write(T1,e1); commit T1; gc; write(T0,e0); commit T0
//@ oracle: T0 (read e0, T1 wrote e1) refused with SerializationFailure iff Serializable and e0 == e1 was written by T1 -> here write conflict takes precedence when e0 == e1; gc does not change the verdict
hist4!(c04_rw_conflict_with_gc, s, [any_node(), any_node()], [any_iso(), any_iso(), 1], { s.b(0); s.b(1); s.r(0,0); s.r(1,0); s.w(1,1); s.c(1); s.g(); s.w(0,0); s.c(0); }, |m, same| m == 0b10 && same);

//@ property: C04
//@ tier: quick
//@ cap_s: 400
//@ unwind: 5
//@ stubs: parking_lot slow paths, alloc::fmt::format
//@ encodes: TransactionManager::{begin_with_isolation,record_read,record_write,commit,state}
//@ symbolic: three entities (nodes, all id bits; any may coincide), isolation levels
//@ bound: read-write antidependency: begin T0; begin T1; read(T0,e0); write(T0,e2); write(T1,e1); commit T1; commit T0
//@ oracle: T0 refused with WriteConflict iff e2 == e1, else with SerializationFailure iff Serializable and e0 == e1, else accepted
hist4!(c04_rw_antidependency, s, [any_node(), any_node(), any_node()], [any_iso(), any_iso(), 1], { s.b(0); s.b(1); s.r(0,0); s.w(0,2); s.w(1,1); s.c(1); s.c(0); }, |m, same| m == 0b10 && same);

//@ property: C04
//@ tier: quick
//@ cap_s: 400
//@ expect: fail
//@ stubs: parking_lot slow paths, alloc::fmt::format
//@ encodes: TransactionManager::{begin_with_isolation,record_read,record_write,commit}
//@ symbolic: one entity id
//@ bound: the test-suite shape: begin T0 (Serializable); begin T1; read(T0,e); write(T1,e); commit T1; commit T0 (T0 read-only)
//@ oracle: witness of the open known finding c04_read_only_refused: asserts that the read-only T0 is accepted (it is not)
#[kani::proof]
#[kani::unwind(5)]
#[kani::stub(parking_lot::RawRwLock::lock_exclusive_slow, lk_slow)]
#[kani::stub(parking_lot::RawRwLock::lock_shared_slow, lk_sh_slow)]
#[kani::stub(parking_lot::RawRwLock::unlock_exclusive_slow, ulk_slow)]
#[kani::stub(parking_lot::RawRwLock::unlock_shared_slow, ulk_sh_slow)]
#[kani::stub(alloc::fmt::format, fmt_stub)]
fn kf_c04_read_only_refused_still_fails() {
    use grafeo_engine::transaction::{IsolationLevel, TransactionManager};
    let e = any_node();
    let mgr = TransactionManager::new();
    let t0 = mgr.begin_with_isolation(IsolationLevel::Serializable);
    let t1 = mgr.begin();
    let _ = mgr.record_read(t0, e);
    let _ = mgr.record_write(t1, e);
    let r1 = mgr.commit(t1);
    assert!(r1.is_ok());
    let r0 = mgr.commit(t0);
    kani::cover!(true);
    assert!(r0.is_ok(), "read-only Serializable transaction refused");
    std::mem::forget((r0, r1, mgr));
}

//@ property: C04
//@ tier: quick
//@ cap_s: 400
//@ unwind: 5
//@ stubs: parking_lot slow paths, alloc::fmt::format
//@ encodes: TransactionManager::{begin_with_isolation,record_read,record_write,commit,gc,state}
//@ symbolic: two entities (nodes, all id bits)
//@ bound: write skew with clean-up between the two commits, all Serializable: begin T0; begin T1; read(T0,e0); read(T1,e1); write(T0,e1); write(T1,e0); commit T0; gc; commit T1
//@ oracle: gc between the commits must not forget the first committer while the second (Serializable) is still active: T1 is refused exactly as without gc
hist4!(c04_write_skew_gc_between, s, [any_node(), any_node()], [2, 2, 2], { s.b(0); s.b(1); s.r(0,0); s.r(1,1); s.w(0,1); s.w(1,0); s.c(0); s.g(); s.c(1); }, |m, same| m == 0b01 && !same);

//@ property: C04
//@ tier: quick
//@ cap_s: 400
//@ unwind: 5
//@ stubs: parking_lot slow paths, alloc::fmt::format
//@ encodes: TransactionManager::{begin_with_isolation,record_read,record_write,commit,state}, EntityId::eq
//@ symbolic: one id shared by a node and an edge (all 64 bits)
//@ bound: write skew over a node and an edge with the SAME numeric id, all Serializable: begin T0; begin T1; read(T0,N); read(T0,E); read(T1,N); read(T1,E); write(T0,N); write(T1,E); commit T0; commit T1
//@ oracle: T1 read the node T0 modified: refused with SerializationFailure (a node and an edge are different entities even with equal ids)
#[kani::proof]
#[kani::unwind(5)]
#[kani::stub(parking_lot::RawRwLock::lock_exclusive_slow, lk_slow)]
#[kani::stub(parking_lot::RawRwLock::lock_shared_slow, lk_sh_slow)]
#[kani::stub(parking_lot::RawRwLock::unlock_exclusive_slow, ulk_slow)]
#[kani::stub(parking_lot::RawRwLock::unlock_shared_slow, ulk_sh_slow)]
#[kani::stub(alloc::fmt::format, fmt_stub)]
fn c04_write_skew_node_and_edge_same_id() {
    use grafeo_common::types::{EdgeId, NodeId};
    let id: u64 = kani::any();
    let ent = [EntityId::Node(NodeId::new(id)), EntityId::Edge(EdgeId::new(id))];
    let mut s = Sim::new(&ent, [2, 2, 2]);
    s.b(0); s.b(1); s.r(0,0); s.r(0,1); s.r(1,0); s.r(1,1); s.w(0,0); s.w(1,1); s.c(0); s.c(1);
    assert!(s.mask == 0b01);
    kani::cover!(true);
    std::mem::forget(s);
}

//@ property: C04
//@ tier: quick
//@ cap_s: 400
//@ unwind: 5
//@ stubs: parking_lot slow paths, alloc::fmt::format
//@ encodes: TransactionManager::{begin_with_isolation,record_read,record_write,commit,state}
//@ symbolic: two entities (nodes, all id bits)
//@ bound: staggered starts, all Serializable: begin T0; read(T0,e0); read(T0,e1); write(T0,e1); begin T2; commit T2 (epoch advances); begin T1 (later epoch); read(T1,e0); read(T1,e1); write(T1,e0); commit T1; commit T0
//@ oracle: T1 began later than T0 but committed during T0's lifetime and wrote what T0 read: T0 is refused (overlap = "committed after I began", whoever began first)
hist4!(c04_write_skew_staggered_starts, s, [any_node(), any_node()], [2, 2, 2], { s.b(0); s.r(0,0); s.r(0,1); s.w(0,1); s.b(2); s.c(2); s.b(1); s.r(1,0); s.r(1,1); s.w(1,0); s.c(1); s.c(0); }, |m, same| m == 0b110 && !same);
