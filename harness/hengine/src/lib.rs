//! Kani harnesses (real code, path dependencies on /repo). `//@` lines are read by bin/vcheck.
#![recursion_limit = "512"]
#![allow(unused, clippy::all)]
#![cfg_attr(kani, feature(core_io_borrowed_buf, read_buf))]
extern crate alloc;

#[cfg(kani)]
pub mod stubs;
#[cfg(kani)]
pub mod txm;
#[cfg(kani)]
mod c03;
#[cfg(kani)]
mod c03i;
#[cfg(kani)]
mod c04;
#[cfg(kani)]
mod sess;
#[cfg(kani)]
mod c10p;
