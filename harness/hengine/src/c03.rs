//! C03 — first committer wins. Skeletons are concrete (control), entities and isolation levels symbolic (data).
use crate::txm::*;
use crate::txm::Op::*;
use crate::stubs::*;
use grafeo_engine::transaction::EntityId;

macro_rules! hist {
    ($name:ident, $s:ident, $ops:block, $cover:expr) => {
        #[kani::proof]
        #[kani::unwind(5)]
        #[kani::stub(parking_lot::RawRwLock::lock_exclusive_slow, lk_slow)]
        #[kani::stub(parking_lot::RawRwLock::lock_shared_slow, lk_sh_slow)]
        #[kani::stub(parking_lot::RawRwLock::unlock_exclusive_slow, ulk_slow)]
        #[kani::stub(parking_lot::RawRwLock::unlock_shared_slow, ulk_sh_slow)]
        #[kani::stub(alloc::fmt::format, fmt_stub)]
        fn $name() {
            let ent = [any_node(), any_node()];
            let iso = [any_iso(), any_iso(), any_iso()];
            let mut s = Sim::new(&ent, iso);
            { let $s = &mut s; $ops }
            let mask = s.mask;
            std::mem::forget(s);
            let same = ent[0] == ent[1];
            let c: fn(u8, bool) -> bool = $cover;
            kani::cover!(c(mask, same));
        }
    };
}

//@ property: C03
//@ tier: quick
//@ cap_s: 400
//@ unwind: 5
//@ stubs: parking_lot slow paths, alloc::fmt::format
//@ encodes: TransactionManager::{new,begin_with_isolation,record_write,commit,state}
//@ symbolic: both entities (nodes, all 64 id bits each), the isolation level of each transaction
//@ bound: history  begin T0; begin T1; write(T0,e0); write(T1,e1); commit T1; commit T0  (2 overlapping writers)
//@ oracle: commit(T) accepted iff no OTHER transaction committed after T began with a common written entity; refused => WriteConflict and T stays active; epochs strictly increase
hist!(c03_overlap_second_loses, s, { s.b(0); s.b(1); s.w(0,0); s.w(1,1); s.c(1); s.c(0); }, |m, same| m == 0b10 && same);

//@ property: C03
//@ tier: quick
//@ cap_s: 400
//@ unwind: 5
//@ stubs: parking_lot slow paths, alloc::fmt::format
//@ encodes: TransactionManager::{begin_with_isolation,record_write,commit,state}
//@ symbolic: both entities (nodes, all 64 id bits each), isolation levels
//@ bound: history  begin T1; write(T1,e1); commit T1; begin T0; write(T0,e0); commit T0  (T1 committed BEFORE T0 began; no clean-up in between)
//@ oracle: T0 is never refused because of T1 (specification as in c03_overlap_second_loses)
hist!(c03_sequential_writers_no_gc, s, { s.b(1); s.w(1,1); s.c(1); s.b(0); s.w(0,0); s.c(0); }, |m, same| m == 0b11 && same);

//@ property: C03
//@ tier: quick
//@ cap_s: 400
//@ unwind: 5
//@ stubs: parking_lot slow paths, alloc::fmt::format
//@ encodes: TransactionManager::{begin_with_isolation,record_write,commit,gc,state}
//@ symbolic: both entities (nodes, all 64 id bits each), isolation levels
//@ bound: history  begin T1; write(T1,e1); commit T1; gc; begin T0; write(T0,e0); commit T0
//@ oracle: same verdicts as without gc (clean-up never changes which commits are accepted)
hist!(c03_sequential_writers_gc, s, { s.b(1); s.w(1,1); s.c(1); s.g(); s.b(0); s.w(0,0); s.c(0); }, |m, same| m == 0b11 && same);

//@ property: C03
//@ tier: quick
//@ cap_s: 600
//@ unwind: 5
//@ stubs: parking_lot slow paths, alloc::fmt::format
//@ encodes: TransactionManager::{begin_with_isolation,record_write,commit,gc,state}
//@ symbolic: both entities (nodes, all 64 id bits each), isolation levels
//@ bound: history  begin T2 (long-running reader, never ends); begin T1; write(T1,e1); commit T1; gc; begin T0; write(T0,e0); commit T0
//@ oracle: T0 accepted although the pinned T1 entry survives clean-up (T1 committed before T0 began)
hist!(c03_pinned_reader_then_sequential, s, { s.b(2); s.b(1); s.w(1,1); s.c(1); s.g(); s.b(0); s.w(0,0); s.c(0); }, |m, same| m == 0b11 && same);

//@ property: C03
//@ tier: quick
//@ cap_s: 600
//@ unwind: 5
//@ stubs: parking_lot slow paths, alloc::fmt::format
//@ encodes: TransactionManager::{begin_with_isolation,record_write,commit,gc,state}
//@ symbolic: both entities (nodes, all 64 id bits each), isolation levels
//@ bound: history  begin T0; begin T1; write(T1,e1); commit T1; gc; write(T0,e0); commit T0  (clean-up between the first commit and the overlapping second)
//@ oracle: gc must not forget T1 while the overlapping T0 is active: T0 refused iff same entity
hist!(c03_overlap_gc_between, s, { s.b(0); s.b(1); s.w(1,1); s.c(1); s.g(); s.w(0,0); s.c(0); }, |m, same| m == 0b10 && same);

//@ property: C03
//@ tier: quick
//@ cap_s: 600
//@ unwind: 5
//@ stubs: parking_lot slow paths, alloc::fmt::format
//@ encodes: TransactionManager::{begin_with_isolation,record_write,commit,abort,state}
//@ symbolic: both entities (nodes, all 64 id bits each), isolation levels
//@ bound: history  begin T0; begin T1; write(T0,e0); write(T1,e1); abort T1; commit T0; commit T1
//@ oracle: an aborted writer never blocks anyone; commit of an aborted transaction is InvalidState; Aborted is absorbing
hist!(c03_aborted_writer_harmless, s, { s.b(0); s.b(1); s.w(0,0); s.w(1,1); s.a(1); s.c(0); s.c(1); }, |m, same| m == 0b01 && same);

//@ property: C03
//@ tier: quick
//@ cap_s: 600
//@ unwind: 5
//@ stubs: parking_lot slow paths, alloc::fmt::format
//@ encodes: TransactionManager::{begin_with_isolation,record_write,commit,state}
//@ symbolic: both entities (nodes, all 64 id bits each), isolation levels
//@ bound: history  begin T0; begin T1; write(T0,e0); write(T0,e1); write(T1,e1); commit T0; commit T1; commit T1 (retry)
//@ oracle: two-entity write set; the loser stays refused on retry (the winner's write set is kept while the loser is active)
hist!(c03_two_entities_retry, s, { s.b(0); s.b(1); s.w(0,0); s.w(0,1); s.w(1,1); s.c(0); s.c(1); s.c(1); }, |m, _s| m == 0b01);

//@ property: C03
//@ tier: quick
//@ cap_s: 400
//@ stubs: parking_lot slow paths, alloc::fmt::format
//@ encodes: TransactionManager::{begin_with_isolation,record_write,commit,state}, EntityId::eq
//@ symbolic: a node id and an edge id (all 64 bits each, may be numerically equal), isolation levels
//@ bound: history  begin T0; begin T1; write(T0,node); write(T1,edge); commit T1; commit T0
//@ oracle: a node and an edge are different entities even with equal ids: both commit
#[kani::proof]
#[kani::unwind(5)]
#[kani::stub(parking_lot::RawRwLock::lock_exclusive_slow, lk_slow)]
#[kani::stub(parking_lot::RawRwLock::lock_shared_slow, lk_sh_slow)]
#[kani::stub(parking_lot::RawRwLock::unlock_exclusive_slow, ulk_slow)]
#[kani::stub(parking_lot::RawRwLock::unlock_shared_slow, ulk_sh_slow)]
#[kani::stub(alloc::fmt::format, fmt_stub)]
fn c03_node_vs_edge_never_conflict() {
    let ent = [any_node(), any_edge()];
    let iso = [any_iso(), any_iso(), any_iso()];
    let mut s = Sim::new(&ent, iso);
    s.b(0); s.b(1); s.w(0,0); s.w(1,1); s.c(1); s.c(0);
    assert!(s.mask == 0b11);
    kani::cover!(true);
    std::mem::forget(s);
}

//@ property: C03
//@ tier: quick
//@ cap_s: 600
//@ stubs: parking_lot slow paths, alloc::fmt::format
//@ encodes: TransactionManager::{begin_with_isolation,record_write,commit,state}
//@ symbolic: both entities (nodes, all 64 id bits each), isolation levels
//@ bound: history  begin T0; begin T2; commit T2 (epoch advances); begin T1 (younger, later epoch); write(T1,e1); commit T1; write(T0,e0); commit T0
//@ oracle: a younger transaction that began at a later epoch and committed while the older one was still active still makes the older one lose (overlap = "committed after I began", not interval containment)
hist!(c03_younger_writer_commits_first, s, { s.b(0); s.b(2); s.c(2); s.b(1); s.w(1,1); s.c(1); s.w(0,0); s.c(0); }, |m, same| m == 0b110 && same);

//@ property: C03
//@ tier: quick
//@ cap_s: 400
//@ stubs: parking_lot slow paths, alloc::fmt::format
//@ encodes: TransactionManager::{begin_with_isolation,record_write,commit,gc,state}
//@ symbolic: both entities (nodes, all 64 id bits each)
//@ bound: history  begin T0 (ReadCommitted); begin T1 (Serializable); write(T1,e1); commit T1; gc; write(T0,e0); commit T0 -- every active transaction pins the winners it overlaps, whatever its isolation level
//@ oracle: T0 refused iff same entity; gc does not change the verdict
#[kani::proof]
#[kani::unwind(5)]
#[kani::stub(parking_lot::RawRwLock::lock_exclusive_slow, lk_slow)]
#[kani::stub(parking_lot::RawRwLock::lock_shared_slow, lk_sh_slow)]
#[kani::stub(parking_lot::RawRwLock::unlock_exclusive_slow, ulk_slow)]
#[kani::stub(parking_lot::RawRwLock::unlock_shared_slow, ulk_sh_slow)]
#[kani::stub(alloc::fmt::format, fmt_stub)]
fn c03_overlap_gc_between_non_default_levels() {
    let ent = [any_node(), any_node()];
    let mut s = Sim::new(&ent, [0, 2, 1]);
    s.b(0); s.b(1); s.w(1,1); s.c(1); s.g(); s.w(0,0); s.c(0);
    let same = ent[0] == ent[1];
    kani::cover!(s.mask == 0b10 && same);
    kani::cover!(s.mask == 0b11 && !same);
    std::mem::forget(s);
}

//@ property: C03
//@ tier: quick
//@ cap_s: 600
//@ stubs: parking_lot slow paths, alloc::fmt::format
//@ encodes: TransactionManager::{begin_with_isolation,record_write,commit,gc,state}
//@ symbolic: both entities (nodes, all 64 id bits each), isolation levels
//@ bound: history  begin T1; write(T1,e1); commit T1; begin T0 (starts exactly at T1's commit epoch); gc (T0 is the oldest active transaction); write(T0,e0); commit T0
//@ oracle: T1 committed before T0 began: T0 is accepted, with or without the clean-up running while T0 is active (the equality boundary commit epoch == oldest active start epoch)
hist!(c03_sequential_gc_while_second_active, s, { s.b(1); s.w(1,1); s.c(1); s.b(0); s.g(); s.w(0,0); s.c(0); }, |m, same| m == 0b11 && same);

//@ property: C03
//@ tier: quick
//@ cap_s: 600
//@ mem_gb: 10
//@ stubs: parking_lot slow paths, alloc::fmt::format
//@ encodes: TransactionManager::{begin_with_isolation,record_write,commit,state}
//@ symbolic: the isolation levels of both transactions (the contested node is concrete)
//@ bound: history  begin T0; begin T1; write(T0,e); write(T1,e); commit T0; commit T1 (refused); commit T1 again (retry without abort); both write the SAME entity, so the refusal is certain
//@ oracle: a refused commit leaves the loser exactly as it was: the retry is refused again with WriteConflict, the loser stays active, the winner's update is not lost
#[kani::proof]
#[kani::unwind(5)]
#[kani::stub(parking_lot::RawRwLock::lock_exclusive_slow, lk_slow)]
#[kani::stub(parking_lot::RawRwLock::lock_shared_slow, lk_sh_slow)]
#[kani::stub(parking_lot::RawRwLock::unlock_exclusive_slow, ulk_slow)]
#[kani::stub(parking_lot::RawRwLock::unlock_shared_slow, ulk_sh_slow)]
#[kani::stub(alloc::fmt::format, fmt_stub)]
fn c03_refused_commit_retry_same_entity() {
    // the contested entity is concrete: with a symbolic id the (seeded) variants of commit() that move the sets around
    // made symbolic execution run out of memory; the isolation levels stay symbolic
    let e = EntityId::Node(grafeo_common::types::NodeId::new(7));
    let ent = [e, e];
    let mut s = Sim::new(&ent, [any_iso(), any_iso(), 1]);
    s.b(0); s.b(1); s.w(0,0); s.w(1,1); s.c(0); s.c(1); s.c(1);
    assert!(s.mask == 0b01);
    kani::cover!(true);
    std::mem::forget(s);
}

//@ property: C03
//@ tier: quick
//@ cap_s: 900
//@ mem_gb: 14
//@ stubs: parking_lot slow paths, alloc::fmt::format
//@ encodes: TransactionManager::{begin_with_isolation,commit,abort,abort_all_active,active_count,min_active_epoch,current_epoch,start_epoch,state,gc}
//@ symbolic: whether T0 is aborted before the clean-up
//@ bound: history  begin T0; begin T2; commit T2; begin T1; [abort T0]; gc; abort_all_active
//@ oracle: the pinning horizon (min_active_epoch) is the smallest start epoch among ACTIVE transactions, or the current epoch when none is active; gc never removes an active transaction; abort_all_active leaves nothing active
#[kani::proof]
#[kani::unwind(5)]
#[kani::stub(parking_lot::RawRwLock::lock_exclusive_slow, lk_slow)]
#[kani::stub(parking_lot::RawRwLock::lock_shared_slow, lk_sh_slow)]
#[kani::stub(parking_lot::RawRwLock::unlock_exclusive_slow, ulk_slow)]
#[kani::stub(parking_lot::RawRwLock::unlock_shared_slow, ulk_sh_slow)]
#[kani::stub(alloc::fmt::format, fmt_stub)]
fn c03_pinning_horizon_and_abort_all() {
    use grafeo_engine::transaction::{TransactionManager, TxState};
    let mgr = TransactionManager::new();
    let t0 = mgr.begin();
    let t2 = mgr.begin();
    let r = mgr.commit(t2); assert!(r.is_ok()); std::mem::forget(r);
    let t1 = mgr.begin();
    assert!(mgr.start_epoch(t0).map(|e| e.as_u64()) == Some(0) && mgr.start_epoch(t1).map(|e| e.as_u64()) == Some(1));
    assert!(mgr.active_count() == 2 && mgr.min_active_epoch().as_u64() == 0);
    let abort0: bool = kani::any();
    if abort0 { let r = mgr.abort(t0); assert!(r.is_ok()); std::mem::forget(r); }
    assert!(mgr.min_active_epoch().as_u64() == if abort0 { 1 } else { 0 });
    let _ = mgr.gc();
    assert!(mgr.state(t1) == Some(TxState::Active), "gc removed an active transaction");
    if !abort0 { assert!(mgr.state(t0) == Some(TxState::Active)); }
    mgr.abort_all_active();
    assert!(mgr.active_count() == 0);
    assert!(mgr.state(t1) == Some(TxState::Aborted));
    assert!(mgr.min_active_epoch().as_u64() == mgr.current_epoch().as_u64());
    kani::cover!(abort0);
    kani::cover!(!abort0);
    std::mem::forget(mgr);
}
