//! C03 / C04 — the real TransactionManager driven through concrete operation skeletons with
//! symbolic entities and isolation levels, against a declarative model.
use grafeo_common::types::{EdgeId, EpochId, NodeId, TxId};
use grafeo_common::utils::error::{Error, TransactionError};
use grafeo_engine::transaction::{EntityId, IsolationLevel, TransactionManager, TxState};
use crate::stubs::*;

pub const NT: usize = 3; // transactions per history
pub const NE: usize = 2; // recorded entities per set in the model

#[derive(Clone, Copy)]
pub enum Op { B(usize), W(usize, usize), R(usize, usize), C(usize), A(usize), G }

#[derive(Clone, Copy, PartialEq, Eq)]
pub enum St { None, Active, Committed, Aborted }

pub struct Model {
    pub st: [St; NT], pub begin_pos: [usize; NT], pub commit_pos: [usize; NT], pub iso: [u8; NT],
    pub w: [[Option<usize>; NE]; NT], pub r: [[Option<usize>; NE]; NT],
}
impl Model {
    pub fn new(iso: [u8; NT]) -> Self { Model { st: [St::None; NT], begin_pos: [0; NT], commit_pos: [0; NT], iso, w: [[None; NE]; NT], r: [[None; NE]; NT] } }
    fn add(set: &mut [Option<usize>; NE], e: usize) { let mut i = 0; while i < NE { if set[i].is_none() { set[i] = Some(e); return; } i += 1; } panic!("model set full"); }
    /// do two sets share an entity? (entity slots compare by the *value* of the symbolic entity)
    fn overlap(a: &[Option<usize>; NE], b: &[Option<usize>; NE], ent: &[EntityId]) -> bool {
        let mut hit = false; let mut i = 0;
        while i < NE { let mut j = 0; while j < NE { if let (Some(x), Some(y)) = (a[i], b[j]) { if ent[x] == ent[y] { hit = true; } } j += 1; } i += 1; }
        hit
    }
    /// specification of commit(t) at history position `pos`: 0 = accepted, 1 = write conflict, 2 = serialization failure, 3 = invalid state
    pub fn spec_commit(&self, t: usize, ent: &[EntityId]) -> u8 {
        if self.st[t] != St::Active { return 3; }
        let mut ww = false; let mut rw = false; let mut u = 0;
        while u < NT {
            if u != t && self.st[u] == St::Committed && self.commit_pos[u] > self.begin_pos[t] {
                if Self::overlap(&self.w[t], &self.w[u], ent) { ww = true; }
                if Self::overlap(&self.r[t], &self.w[u], ent) { rw = true; }
            }
            u += 1;
        }
        let has_writes = self.w[t][0].is_some();
        if ww { 1 } else if self.iso[t] == 2 && rw && has_writes { 2 } else { 0 }
    }
    /// Region of the recorded open finding `c04_read_only_refused` (KNOWN_FINDINGS.txt): a read-only
    /// Serializable transaction that read something an overlapping, already committed writer wrote.
    pub fn in_kf_read_only_region(&self, t: usize, ent: &[EntityId]) -> bool {
        if self.st[t] != St::Active || self.iso[t] != 2 || self.w[t][0].is_some() { return false; }
        let mut rw = false; let mut u = 0;
        while u < NT {
            if u != t && self.st[u] == St::Committed && self.commit_pos[u] > self.begin_pos[t] && Self::overlap(&self.r[t], &self.w[u], ent) { rw = true; }
            u += 1;
        }
        rw
    }
}

pub fn iso_of(k: u8) -> IsolationLevel { match k { 0 => IsolationLevel::ReadCommitted, 1 => IsolationLevel::SnapshotIsolation, _ => IsolationLevel::Serializable } }

fn classify(r: &Result<EpochId, Error>) -> u8 {
    match r {
        Ok(_) => 0,
        Err(Error::Transaction(TransactionError::WriteConflict(_))) => 1,
        Err(Error::Transaction(TransactionError::SerializationFailure(_))) => 2,
        Err(_) => 3,
    }
}

/// The real manager and the model side by side; every method is one history step (straight-line
/// harness code: no loop over operations, so the unwind bound only has to cover the map shim).
pub struct Sim<'a> { pub mgr: TransactionManager, pub m: Model, pub ids: [TxId; NT], pub last_epoch: u64, pub mask: u8, pub pos: usize, pub ent: &'a [EntityId] }
impl<'a> Sim<'a> {
    pub fn new(ent: &'a [EntityId], iso: [u8; NT]) -> Self { Sim { mgr: TransactionManager::new(), m: Model::new(iso), ids: [TxId::new(0); NT], last_epoch: 0, mask: 0, pos: 1, ent } }
    pub fn b(&mut self, t: usize) { self.ids[t] = self.mgr.begin_with_isolation(iso_of(self.m.iso[t])); self.m.st[t] = St::Active; self.m.begin_pos[t] = self.pos; self.pos += 1; }
    pub fn w(&mut self, t: usize, e: usize) { let r = self.mgr.record_write(self.ids[t], self.ent[e]); assert!(r.is_ok() == (self.m.st[t] == St::Active)); if self.m.st[t] == St::Active { Model::add(&mut self.m.w[t], e); } std::mem::forget(r); self.pos += 1; }
    pub fn r(&mut self, t: usize, e: usize) { let r = self.mgr.record_read(self.ids[t], self.ent[e]); assert!(r.is_ok() == (self.m.st[t] == St::Active)); if self.m.st[t] == St::Active { Model::add(&mut self.m.r[t], e); } std::mem::forget(r); self.pos += 1; }
    pub fn c(&mut self, t: usize) {
        let want = self.m.spec_commit(t, self.ent);
        // open known finding carved out of the main harnesses (the witness harness pins it)
        #[cfg(feature = "kf_c04_read_only_refused")]
        kani::assume(!self.m.in_kf_read_only_region(t, self.ent));
        let r = self.mgr.commit(self.ids[t]);
        let got = classify(&r);
        assert!(got == want, "commit outcome differs from the first-committer-wins / SSI specification");
        if let Ok(ep) = &r {
            assert!(ep.as_u64() > self.last_epoch, "commit epochs must be strictly increasing");
            self.last_epoch = ep.as_u64();
            self.m.st[t] = St::Committed; self.m.commit_pos[t] = self.pos; self.mask |= 1 << t;
            assert!(self.mgr.state(self.ids[t]) == Some(TxState::Committed));
        } else if want != 3 {
            assert!(self.mgr.state(self.ids[t]) == Some(TxState::Active)); // a refused commit changes nothing
        }
        std::mem::forget(r); self.pos += 1;
    }
    pub fn a(&mut self, t: usize) { let r = self.mgr.abort(self.ids[t]); assert!(r.is_ok() == (self.m.st[t] == St::Active)); if self.m.st[t] == St::Active { self.m.st[t] = St::Aborted; } std::mem::forget(r); self.pos += 1; }
    pub fn g(&mut self) { let _ = self.mgr.gc(); self.pos += 1; }
}

/// entity of a concrete kind with a symbolic id (a symbolic *kind* makes symex of the set
/// look-ups explode: measured > 15 min vs 16 s)
pub fn any_node() -> EntityId { EntityId::Node(NodeId::new(kani::any())) }
pub fn any_edge() -> EntityId { EntityId::Edge(EdgeId::new(kani::any())) }
pub fn any_iso() -> u8 { let k: u8 = kani::any(); kani::assume(k < 3); k }
