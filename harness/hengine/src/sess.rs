//! C01 / C02 at the level just below `Session`: the real TransactionManager and the real LpgStore composed exactly as
//! session.rs composes them. `Session` itself holds its store in an `Arc` (a heap object: every field read becomes
//! a byte-level extraction for CBMC, no verdict), so the harness keeps store and manager on the stack and repeats
//! session.rs's three-line context rule (`get_transaction_context`): inside a transaction reads and writes use
//! (start epoch of the transaction, its id); outside they use (current epoch, TxId::SYSTEM).
use crate::stubs::*;
use grafeo_common::types::{EpochId, NodeId, TxId};
use grafeo_core::graph::lpg::LpgStore;
use grafeo_engine::transaction::TransactionManager;

pub fn ctx(txm: &TransactionManager, tx: Option<TxId>) -> (EpochId, TxId) {
    match tx { Some(t) => (txm.start_epoch(t).unwrap_or_else(|| txm.current_epoch()), t), None => (txm.current_epoch(), TxId::SYSTEM) }
}

macro_rules! sess_h {
    ($name:ident, $body:block) => {
        #[kani::proof]
        #[kani::unwind(5)]
        #[kani::stub(parking_lot::RawRwLock::lock_exclusive_slow, lk_slow)]
        #[kani::stub(parking_lot::RawRwLock::lock_shared_slow, lk_sh_slow)]
        #[kani::stub(parking_lot::RawRwLock::unlock_exclusive_slow, ulk_slow)]
        #[kani::stub(parking_lot::RawRwLock::unlock_shared_slow, ulk_sh_slow)]
        #[kani::stub(parking_lot::RawMutex::lock_slow, mx_lock_slow)]
        #[kani::stub(parking_lot::RawMutex::unlock_slow, mx_unlock_slow)]
        #[kani::stub(alloc::fmt::format, fmt_stub)]
        #[kani::stub(std::hash::RandomState::new, std_rs_new)]
        #[kani::stub(ahash::RandomState::new, ahash_rs_new)]
        #[kani::stub(dashmap::RawRwLock::lock_exclusive_slow, dm_lock_excl_slow)]
        #[kani::stub(dashmap::RawRwLock::unlock_exclusive_slow, dm_unlock_excl_slow)]
        #[kani::stub(dashmap::RawRwLock::lock_shared_slow, dm_lock_shared_slow)]
        #[kani::stub(dashmap::RawRwLock::unlock_shared_slow, dm_unlock_shared_slow)]
        fn $name() $body
    };
}

//@ property: C02
//@ tier: quick
//@ cap_s: 900
//@ mem_gb: 12
//@ stubs: parking_lot slow paths, alloc::fmt::format, RandomState::new
//@ encodes: TransactionManager::{begin,abort,start_epoch,current_epoch}, LpgStore::{new,create_node_versioned,discard_uncommitted_versions,get_node_versioned} composed as Session::{begin_tx,create_node,rollback,get_node} compose them
//@ symbolic: how many unrelated transactions committed before (0 or 1: the epoch the writer starts at)
//@ bound: one writer transaction creating one unlabelled node, then rollback; one later reader outside a transaction and one inside a fresh transaction
//@ oracle: after rollback the created node is not visible to anyone through the point lookup
sess_h!(c02_rollback_hides_created_node, {
    let st = LpgStore::new();
    let txm = TransactionManager::new();
    if kani::any() { let t = txm.begin(); let r = txm.commit(t); std::mem::forget(r); }
    let w = txm.begin();
    let (e, t) = ctx(&txm, Some(w));
    let n = st.create_node_versioned(&[], e, t);
    // rollback, as Session::rollback does
    st.discard_uncommitted_versions(w);
    let r = txm.abort(w); assert!(r.is_ok()); std::mem::forget(r);
    let (e2, t2) = ctx(&txm, None);
    let g = st.get_node_versioned(n, e2, t2); assert!(g.is_none(), "a rolled-back node is still visible"); std::mem::forget(g);
    let rd = txm.begin();
    let (e3, t3) = ctx(&txm, Some(rd));
    let g = st.get_node_versioned(n, e3, t3); assert!(g.is_none()); std::mem::forget(g);
    kani::cover!(e.as_u64() == 1);
    std::mem::forget((st, txm));
});

//@ property: C01
//@ tier: thorough
//@ cap_s: 900
//@ mem_gb: 12
//@ expect: fail
//@ stubs: parking_lot slow paths, alloc::fmt::format, RandomState::new
//@ encodes: TransactionManager::{begin,start_epoch,current_epoch}, LpgStore::{create_node_versioned,get_node_versioned} composed as Session::{begin_tx,create_node,get_node}
//@ symbolic: nothing (a concrete two-session history)
//@ bound: history  W.begin; W.create_node; R.get_node (R outside a transaction), W still uncommitted
//@ oracle: witness of the open known finding c01_dirty_read_uncommitted_node: asserts that R does not see W's uncommitted node (it does: versions are stamped with the creator's START epoch and visibility never asks whether the creator committed)
sess_h!(kf_c01_dirty_read_uncommitted_node_still_fails, {
    let st = LpgStore::new();
    let txm = TransactionManager::new();
    let w = txm.begin();
    let (e, t) = ctx(&txm, Some(w));
    let n = st.create_node_versioned(&[], e, t);
    let (e2, t2) = ctx(&txm, None);
    let g = st.get_node_versioned(n, e2, t2);
    kani::cover!(true);
    assert!(g.is_none(), "another session sees an uncommitted node (dirty read)");
    std::mem::forget((g, st, txm));
});

//@ property: C02
//@ tier: thorough
//@ optional: yes
//@ cap_s: 900
//@ mem_gb: 12
//@ stubs: parking_lot slow paths, alloc::fmt::format, RandomState::new
//@ encodes: TransactionManager::{begin,commit,start_epoch,current_epoch}, LpgStore::{create_node_versioned,get_node_versioned} composed as Session::{begin_tx,create_node,commit,get_node}
//@ symbolic: how many unrelated transactions committed before (0 or 1)
//@ bound: one writer transaction creating one unlabelled node, then commit; readers that begin afterwards (outside and inside a transaction)
//@ oracle: after a successful commit the node is visible to every transaction that begins afterwards and to reads outside a transaction
sess_h!(c02_commit_publishes_created_node, {
    let st = LpgStore::new();
    let txm = TransactionManager::new();
    if kani::any() { let t = txm.begin(); let r = txm.commit(t); std::mem::forget(r); }
    let w = txm.begin();
    let (e, t) = ctx(&txm, Some(w));
    let n = st.create_node_versioned(&[], e, t);
    let r = txm.commit(w); assert!(r.is_ok()); std::mem::forget(r);
    let (e2, t2) = ctx(&txm, None);
    let g = st.get_node_versioned(n, e2, t2); assert!(g.is_some(), "a committed node is not visible outside a transaction"); std::mem::forget(g);
    let rd = txm.begin();
    let (e3, t3) = ctx(&txm, Some(rd));
    let g = st.get_node_versioned(n, e3, t3); assert!(g.is_some(), "a committed node is not visible to a transaction begun afterwards"); std::mem::forget(g);
    kani::cover!(e.as_u64() == 1);
    std::mem::forget((st, txm));
});

//@ property: C02
//@ tier: quick
//@ optional: yes
//@ cap_s: 900
//@ mem_gb: 12
//@ expect: fail
//@ stubs: parking_lot slow paths, alloc::fmt::format, RandomState::new
//@ encodes: TransactionManager::{begin,abort,start_epoch}, LpgStore::{create_node,set_node_property,discard_uncommitted_versions,get_node_property} composed as Session::{begin_tx,rollback} around a property write
//@ symbolic: the Int64 value written
//@ bound: history  create n (committed); W.begin; set n.k = v; W.rollback; read n.k
//@ oracle: witness of the open known finding c02_rollback_leaves_property: asserts that the property written inside the rolled-back transaction is gone (it is not: properties are not versioned and rollback only removes version-chain entries)
sess_h!(kf_c02_rollback_leaves_property_still_fails, {
    use grafeo_common::types::{PropertyKey, Value};
    let st = LpgStore::new();
    let txm = TransactionManager::new();
    let n = st.create_node(&[]);
    let w = txm.begin();
    let v: i64 = kani::any();
    st.set_node_property(n, "k", Value::Int64(v));
    st.discard_uncommitted_versions(w);
    let r = txm.abort(w); std::mem::forget(r);
    let got = st.get_node_property(n, &PropertyKey::new("k"));
    kani::cover!(true);
    assert!(got.is_none(), "a property written inside a rolled-back transaction is still there");
    std::mem::forget((got, st, txm));
});

//@ property: C02
//@ tier: quick
//@ cap_s: 1500
//@ mem_gb: 14
//@ stubs: parking_lot slow paths, alloc::fmt::format, RandomState::new
//@ encodes: as c02_rollback_hides_created_node, two nodes created in the rolled-back transaction
//@ symbolic: how many unrelated transactions committed before (0 or 1)
//@ bound: one writer transaction creating TWO unlabelled nodes, then rollback; a later reader outside a transaction
//@ oracle: after rollback neither node is visible (every version chain the transaction touched is cleaned, not only the first)
sess_h!(c02_rollback_hides_both_created_nodes, {
    let st = LpgStore::new();
    let txm = TransactionManager::new();
    if kani::any() { let t = txm.begin(); let r = txm.commit(t); std::mem::forget(r); }
    let w = txm.begin();
    let (e, t) = ctx(&txm, Some(w));
    let n1 = st.create_node_versioned(&[], e, t);
    let n2 = st.create_node_versioned(&[], e, t);
    st.discard_uncommitted_versions(w);
    let r = txm.abort(w); std::mem::forget(r);
    let (e2, t2) = ctx(&txm, None);
    let g = st.get_node_versioned(n1, e2, t2); assert!(g.is_none(), "the first node of a rolled-back transaction is still visible"); std::mem::forget(g);
    let g = st.get_node_versioned(n2, e2, t2); assert!(g.is_none(), "the second node of a rolled-back transaction is still visible"); std::mem::forget(g);
    kani::cover!(true);
    std::mem::forget((st, txm));
});
