#![allow(unused, clippy::all, static_mut_refs)]
extern crate alloc;
#[cfg(kani)]
pub mod stubs;
#[cfg(kani)]
mod exp;
