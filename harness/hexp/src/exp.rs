//@ note: scratch experiments (not registered)
use crate::stubs::*;
use grafeo_common::types::{LogicalType, Value};
use grafeo_core::execution::{DataChunk, ValueVector};
use grafeo_core::execution::operators::{LimitOperator, Operator, OperatorResult, SkipOperator};

/// child producing chunks of sizes [2,1] with values 0,1 | 2
struct Child { step: u8 }
impl Operator for Child {
    fn next(&mut self) -> OperatorResult {
        self.step += 1;
        match self.step {
            1 => { let mut c = ValueVector::with_type(LogicalType::Int64); c.push_int64(0); c.push_int64(1); Ok(Some(DataChunk::new(vec![c]))) }
            2 => { let mut c = ValueVector::with_type(LogicalType::Int64); c.push_int64(2); Ok(Some(DataChunk::new(vec![c]))) }
            _ => Ok(None),
        }
    }
    fn reset(&mut self) { self.step = 0; }
    fn name(&self) -> &'static str { "Child" }
}
#[kani::proof]
#[kani::unwind(6)]
#[kani::stub(alloc::fmt::format, fmt_stub)]
fn lim1() {
    let limit: usize = kani::any(); kani::assume(limit <= 5);
    let mut op = LimitOperator::new(Box::new(Child { step: 0 }), limit, vec![LogicalType::Int64]);
    let mut total = 0usize; let mut i = 0;
    while i < 4 { match op.next() { Ok(Some(ch)) => { total += ch.row_count(); std::mem::forget(ch); } _ => {} } i += 1; }
    assert!(total == if limit < 3 { limit } else { 3 });
    kani::cover!(limit == 1 && total == 1);
    std::mem::forget(op);
}
