//@ note: scratch experiments (not registered)
use crate::stubs::*;
use grafeo_common::types::{LogicalType, Value};
use grafeo_core::execution::chunk::{DataChunk, DataChunkBuilder};
use grafeo_core::execution::operators::{LimitOperator, LimitSkipOperator, Operator, OperatorError, OperatorResult, SkipOperator};
use grafeo_core::execution::operators::push::{LimitPushOperator, SkipLimitPushOperator, SkipPushOperator};
use grafeo_core::execution::pipeline::{PushOperator, Sink};

/// source of two chunks of concrete sizes A and B holding the running row number 0,1,2,...
struct Src { sizes: [usize; 2], i: usize, next_val: i64 }
fn mk_chunk(n: usize, first: i64) -> DataChunk {
    let mut b = DataChunkBuilder::with_capacity(&[LogicalType::Int64], 4);
    let mut j = 0;
    while j < n { b.column_mut(0).unwrap().push_int64(first + j as i64); b.advance_row(); j += 1; }
    b.finish()
}
impl Operator for Src {
    fn next(&mut self) -> OperatorResult {
        if self.i >= 2 { return Ok(None); }
        let n = self.sizes[self.i];
        self.i += 1;
        let c = mk_chunk(n, self.next_val);
        self.next_val += n as i64;
        Ok(Some(c))
    }
    fn reset(&mut self) { self.i = 0; self.next_val = 0; }
    fn name(&self) -> &'static str { "Src" }
}

struct Out { v: [i64; 8], n: usize }
impl Out {
    fn new() -> Self { Out { v: [-1; 8], n: 0 } }
    fn take(&mut self, c: &DataChunk) {
        let col = c.column(0).unwrap();
        for row in c.selected_indices() {
            let x = col.get_int64(row).unwrap();
            assert!(self.n < 8);
            self.v[self.n] = x;
            self.n += 1;
        }
    }
}
fn drain(op: &mut dyn Operator, out: &mut Out) {
    let mut calls = 0;
    while calls < 4 {
        match op.next() {
            Ok(Some(c)) => { out.take(&c); std::mem::forget(c); }
            Ok(None) => return,
            Err(_) => panic!("operator error"),
        }
        calls += 1;
    }
    // after 4 calls a 2-chunk input must be exhausted
    assert!(matches!(op.next(), Ok(None)), "operator did not finish");
}
fn check_window(out: &Out, total: usize, s: usize, l: usize) {
    let start = if s < total { s } else { total };
    let avail = total - start;
    let cnt = if l < avail { l } else { avail };
    assert!(out.n == cnt, "wrong number of rows");
    let mut i = 0;
    while i < 8 { if i < cnt { assert!(out.v[i] == (start + i) as i64, "wrong row in the window"); } i += 1; }
}

macro_rules! pull_h { ($name:ident, $a:expr, $b:expr) => {
    #[kani::proof]
    #[kani::unwind(6)]
    #[kani::stub(alloc::fmt::format, fmt_stub)]
    fn $name() {
        let (s, l): (usize, usize) = (kani::any(), kani::any());
        kani::assume(s <= 6 && l <= 6);
        let which: u8 = kani::any();
        kani::assume(which < 3);
        let src = Box::new(Src { sizes: [$a, $b], i: 0, next_val: 0 });
        let schema = vec![LogicalType::Int64];
        let mut out = Out::new();
        if which == 0 {
            let mut op = LimitOperator::new(src, l, schema);
            drain(&mut op, &mut out);
            check_window(&out, $a + $b, 0, l);
            std::mem::forget(op);
        } else if which == 1 {
            let mut op = SkipOperator::new(src, s, schema);
            drain(&mut op, &mut out);
            check_window(&out, $a + $b, s, 100);
            std::mem::forget(op);
        } else {
            let mut op = LimitSkipOperator::new(src, s, l, schema);
            drain(&mut op, &mut out);
            check_window(&out, $a + $b, s, l);
            std::mem::forget(op);
        }
        kani::cover!(out.n == 2);
    }
}; }
pull_h!(x_pull_2_3, 2, 3);
pull_h!(x_pull_3_0, 3, 0);

struct RecSink { out: Out, stop_after: usize }
impl Sink for RecSink {
    fn consume(&mut self, chunk: DataChunk) -> Result<bool, OperatorError> { self.out.take(&chunk); std::mem::forget(chunk); Ok(true) }
    fn finalize(&mut self) -> Result<(), OperatorError> { Ok(()) }
    fn name(&self) -> &'static str { "Rec" }
}
macro_rules! push_h { ($name:ident, $a:expr, $b:expr) => {
    #[kani::proof]
    #[kani::unwind(6)]
    #[kani::stub(alloc::fmt::format, fmt_stub)]
    fn $name() {
        let (s, l): (usize, usize) = (kani::any(), kani::any());
        kani::assume(s <= 6 && l <= 6);
        let which: u8 = kani::any();
        kani::assume(which < 3);
        let mut sink = RecSink { out: Out::new(), stop_after: 0 };
        let (c0, c1) = (mk_chunk($a, 0), mk_chunk($b, $a as i64));
        if which == 0 {
            let mut op = LimitPushOperator::new(l);
            let go = op.push(c0, &mut sink).unwrap();
            if go { let _ = op.push(c1, &mut sink).unwrap(); } else { std::mem::forget(c1); }
            op.finalize(&mut sink).unwrap();
            check_window(&sink.out, $a + $b, 0, l);
        } else if which == 1 {
            let mut op = SkipPushOperator::new(s);
            let go = op.push(c0, &mut sink).unwrap();
            if go { let _ = op.push(c1, &mut sink).unwrap(); } else { std::mem::forget(c1); }
            op.finalize(&mut sink).unwrap();
            check_window(&sink.out, $a + $b, s, 100);
        } else {
            let mut op = SkipLimitPushOperator::new(s, l);
            let go = op.push(c0, &mut sink).unwrap();
            if go { let _ = op.push(c1, &mut sink).unwrap(); } else { std::mem::forget(c1); }
            op.finalize(&mut sink).unwrap();
            check_window(&sink.out, $a + $b, s, l);
        }
        kani::cover!(sink.out.n == 2);
    }
}; }
push_h!(x_push_2_3, 2, 3);

#[kani::proof]
#[kani::unwind(4)]
fn m1_vec_tag() {
    let v = vec![LogicalType::Int64];
    let c = v[0].clone();
    assert!(c == LogicalType::Int64);
    kani::cover!(true);
    std::mem::forget((v, c));
}
#[kani::proof]
#[kani::unwind(4)]
fn m2_chunk_stack_schema() {
    let x: i64 = kani::any();
    let c = mk_chunk(2, x);
    assert!(c.column(0).unwrap().get_int64(1) == Some(x + 1) || x == i64::MAX);
    kani::cover!(true);
    std::mem::forget(c);
}
#[kani::proof]
#[kani::unwind(4)]
fn m3_chunk_vec_schema() {
    let x: i64 = kani::any();
    let schema = vec![LogicalType::Int64];
    let mut b = DataChunkBuilder::with_capacity(&schema, 4);
    b.column_mut(0).unwrap().push_int64(x); b.advance_row();
    let c = b.finish();
    assert!(c.column(0).unwrap().get_int64(0) == Some(x));
    kani::cover!(true);
    std::mem::forget((c, schema));
}
