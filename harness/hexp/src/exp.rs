//@ note: scratch experiments (not registered)
use crate::stubs::*;
use grafeo_core::graph::rdf::{RdfStore, RdfStoreConfig, Term, Triple, TriplePattern};
fn with_s1<R>(b: u8, f: impl FnOnce(&str) -> R) -> R { let arr = [b]; f(unsafe { std::str::from_utf8_unchecked(&arr) }) }
fn subj(i: u8) -> Term { with_s1(if i == 0 { b'a' } else { b'b' }, |s| Term::iri(s)) }
fn pred(i: u8) -> Term { with_s1(if i == 0 { b'p' } else { b'q' }, |s| Term::iri(s)) }
fn obj(i: u8) -> Term { with_s1(if i == 0 { b'a' } else { b'b' }, |s| Term::typed_literal(s, "i")) }
fn triple(k: u8) -> Triple { Triple::new(subj(k & 1), pred((k >> 1) & 1), obj((k >> 2) & 1)) }
macro_rules! ex { ($name:ident, $body:block) => {
    #[kani::proof]
    #[kani::unwind(5)]
    #[kani::stub(parking_lot::RawRwLock::lock_exclusive_slow, lk_slow)]
    #[kani::stub(parking_lot::RawRwLock::lock_shared_slow, lk_sh_slow)]
    #[kani::stub(parking_lot::RawRwLock::unlock_exclusive_slow, ulk_slow)]
    #[kani::stub(parking_lot::RawRwLock::unlock_shared_slow, ulk_sh_slow)]
    #[kani::stub(alloc::fmt::format, fmt_stub)]
    fn $name() $body
} }
ex!(r0_new, { let st = RdfStore::with_config(RdfStoreConfig { initial_capacity: 4, index_objects: true }); kani::cover!(true); std::mem::forget(st); });
ex!(r1_insert_concrete, { let st = RdfStore::with_config(RdfStoreConfig { initial_capacity: 4, index_objects: true }); assert!(st.insert(triple(3))); assert!(st.len() == 1); kani::cover!(true); std::mem::forget(st); });
ex!(r2_insert_sym, { let st = RdfStore::with_config(RdfStoreConfig { initial_capacity: 4, index_objects: true }); let k: u8 = kani::any(); kani::assume(k < 8); assert!(st.insert(triple(k))); assert!(st.len() == 1); kani::cover!(true); std::mem::forget(st); });
ex!(r3_two_inserts_concrete, { let st = RdfStore::with_config(RdfStoreConfig { initial_capacity: 4, index_objects: true }); assert!(st.insert(triple(3))); assert!(st.insert(triple(5))); assert!(st.len() == 2); kani::cover!(true); std::mem::forget(st); });
