//@ note: scratch experiments (not registered)
use crate::stubs::*;
use grafeo_common::types::{LogicalType, Value};
use grafeo_core::execution::chunk::{DataChunk, DataChunkBuilder};
use grafeo_core::execution::operators::{LimitOperator, LimitSkipOperator, Operator, OperatorError, OperatorResult, SkipOperator};
use grafeo_core::execution::operators::push::{LimitPushOperator, SkipLimitPushOperator, SkipPushOperator};
use grafeo_core::execution::pipeline::{PushOperator, Sink};

/// source of two chunks of concrete sizes A and B holding the running row number 0,1,2,...
struct Src { sizes: [usize; 2], i: usize, next_val: i64 }
fn mk_chunk(n: usize, first: i64) -> DataChunk {
    let mut b = DataChunkBuilder::with_capacity(&[LogicalType::Int64], 4);
    let mut j = 0;
    while j < n { b.column_mut(0).unwrap().push_int64(first + j as i64); b.advance_row(); j += 1; }
    b.finish()
}
impl Operator for Src {
    fn next(&mut self) -> OperatorResult {
        if self.i >= 2 { return Ok(None); }
        let n = self.sizes[self.i];
        self.i += 1;
        let c = mk_chunk(n, self.next_val);
        self.next_val += n as i64;
        Ok(Some(c))
    }
    fn reset(&mut self) { self.i = 0; self.next_val = 0; }
    fn name(&self) -> &'static str { "Src" }
}

struct Out { v: [i64; 8], n: usize }
impl Out {
    fn new() -> Self { Out { v: [-1; 8], n: 0 } }
    fn take(&mut self, c: &DataChunk) {
        let col = c.column(0).unwrap();
        for row in c.selected_indices() {
            let x = col.get_int64(row).unwrap();
            assert!(self.n < 8);
            self.v[self.n] = x;
            self.n += 1;
        }
    }
}
fn drain(op: &mut dyn Operator, out: &mut Out) {
    let mut calls = 0;
    while calls < 4 {
        match op.next() {
            Ok(Some(c)) => { out.take(&c); std::mem::forget(c); }
            Ok(None) => return,
            Err(_) => panic!("operator error"),
        }
        calls += 1;
    }
    // after 4 calls a 2-chunk input must be exhausted
    assert!(matches!(op.next(), Ok(None)), "operator did not finish");
}
fn check_window(out: &Out, total: usize, s: usize, l: usize) {
    let start = if s < total { s } else { total };
    let avail = total - start;
    let cnt = if l < avail { l } else { avail };
    assert!(out.n == cnt, "wrong number of rows");
    let mut i = 0;
    while i < 8 { if i < cnt { assert!(out.v[i] == (start + i) as i64, "wrong row in the window"); } i += 1; }
}

macro_rules! pull_h { ($name:ident, $a:expr, $b:expr) => {
    #[kani::proof]
    #[kani::unwind(6)]
    #[kani::stub(alloc::fmt::format, fmt_stub)]
    fn $name() {
        let (s, l): (usize, usize) = (kani::any(), kani::any());
        kani::assume(s <= 6 && l <= 6);
        let which: u8 = kani::any();
        kani::assume(which < 3);
        let src = Box::new(Src { sizes: [$a, $b], i: 0, next_val: 0 });
        let schema = vec![LogicalType::Int64];
        let mut out = Out::new();
        if which == 0 {
            let mut op = LimitOperator::new(src, l, schema);
            drain(&mut op, &mut out);
            check_window(&out, $a + $b, 0, l);
            std::mem::forget(op);
        } else if which == 1 {
            let mut op = SkipOperator::new(src, s, schema);
            drain(&mut op, &mut out);
            check_window(&out, $a + $b, s, 100);
            std::mem::forget(op);
        } else {
            let mut op = LimitSkipOperator::new(src, s, l, schema);
            drain(&mut op, &mut out);
            check_window(&out, $a + $b, s, l);
            std::mem::forget(op);
        }
        kani::cover!(out.n == 2);
    }
}; }
pull_h!(x_pull_2_3, 2, 3);
pull_h!(x_pull_3_0, 3, 0);

struct RecSink { out: Out, stop_after: usize }
impl Sink for RecSink {
    fn consume(&mut self, chunk: DataChunk) -> Result<bool, OperatorError> { self.out.take(&chunk); std::mem::forget(chunk); Ok(true) }
    fn finalize(&mut self) -> Result<(), OperatorError> { Ok(()) }
    fn name(&self) -> &'static str { "Rec" }
}
macro_rules! push_h { ($name:ident, $a:expr, $b:expr) => {
    #[kani::proof]
    #[kani::unwind(6)]
    #[kani::stub(alloc::fmt::format, fmt_stub)]
    fn $name() {
        let (s, l): (usize, usize) = (kani::any(), kani::any());
        kani::assume(s <= 6 && l <= 6);
        let which: u8 = kani::any();
        kani::assume(which < 3);
        let mut sink = RecSink { out: Out::new(), stop_after: 0 };
        let (c0, c1) = (mk_chunk($a, 0), mk_chunk($b, $a as i64));
        if which == 0 {
            let mut op = LimitPushOperator::new(l);
            let go = op.push(c0, &mut sink).unwrap();
            if go { let _ = op.push(c1, &mut sink).unwrap(); } else { std::mem::forget(c1); }
            op.finalize(&mut sink).unwrap();
            check_window(&sink.out, $a + $b, 0, l);
        } else if which == 1 {
            let mut op = SkipPushOperator::new(s);
            let go = op.push(c0, &mut sink).unwrap();
            if go { let _ = op.push(c1, &mut sink).unwrap(); } else { std::mem::forget(c1); }
            op.finalize(&mut sink).unwrap();
            check_window(&sink.out, $a + $b, s, 100);
        } else {
            let mut op = SkipLimitPushOperator::new(s, l);
            let go = op.push(c0, &mut sink).unwrap();
            if go { let _ = op.push(c1, &mut sink).unwrap(); } else { std::mem::forget(c1); }
            op.finalize(&mut sink).unwrap();
            check_window(&sink.out, $a + $b, s, l);
        }
        kani::cover!(sink.out.n == 2);
    }
}; }
push_h!(x_push_2_3, 2, 3);

#[kani::proof]
#[kani::unwind(4)]
fn m1_vec_tag() {
    let v = vec![LogicalType::Int64];
    let c = v[0].clone();
    assert!(c == LogicalType::Int64);
    kani::cover!(true);
    std::mem::forget((v, c));
}
#[kani::proof]
#[kani::unwind(4)]
fn m2_chunk_stack_schema() {
    let x: i64 = kani::any();
    let c = mk_chunk(2, x);
    assert!(c.column(0).unwrap().get_int64(1) == Some(x + 1) || x == i64::MAX);
    kani::cover!(true);
    std::mem::forget(c);
}
#[kani::proof]
#[kani::unwind(4)]
fn m3_chunk_vec_schema() {
    let x: i64 = kani::any();
    let schema = vec![LogicalType::Int64];
    let mut b = DataChunkBuilder::with_capacity(&schema, 4);
    b.column_mut(0).unwrap().push_int64(x); b.advance_row();
    let c = b.finish();
    assert!(c.column(0).unwrap().get_int64(0) == Some(x));
    kani::cover!(true);
    std::mem::forget((c, schema));
}

use grafeo_core::execution::operators::{BinaryFilterOp, ExpressionPredicate, FilterExpression, UnaryFilterOp};
use grafeo_core::graph::lpg::LpgStore;
use std::sync::Arc;
macro_rules! expr_h {
    ($name:ident, $body:block) => {
        #[kani::proof]
        #[kani::unwind(5)]
        #[kani::stub(parking_lot::RawRwLock::lock_exclusive_slow, lk_slow)]
        #[kani::stub(parking_lot::RawRwLock::lock_shared_slow, lk_sh_slow)]
        #[kani::stub(parking_lot::RawRwLock::unlock_exclusive_slow, ulk_slow)]
        #[kani::stub(parking_lot::RawRwLock::unlock_shared_slow, ulk_sh_slow)]
        #[kani::stub(parking_lot::RawMutex::lock_slow, mx_lock_slow)]
        #[kani::stub(parking_lot::RawMutex::unlock_slow, mx_unlock_slow)]
        #[kani::stub(alloc::fmt::format, fmt_stub)]
        #[kani::stub(std::hash::RandomState::new, std_rs_new)]
        #[kani::stub(ahash::RandomState::new, ahash_rs_new)]
        #[kani::stub(regex::Regex::new, regex_new_stub)]
        fn $name() $body
    };
}
fn lit(v: Value) -> Box<FilterExpression> { Box::new(FilterExpression::Literal(v)) }
fn predx(e: FilterExpression) -> ExpressionPredicate { ExpressionPredicate::new(e, std::collections::HashMap::new(), Arc::new(LpgStore::new())) }
expr_h!(x_evalat_div, {
    let (a, b): (i64, i64) = (kani::any(), kani::any());
    let p = predx(FilterExpression::Binary { left: lit(Value::Int64(a)), op: BinaryFilterOp::Div, right: lit(Value::Int64(b)) });
    let c = DataChunk::empty();
    let r = p.eval_at(&c, 0);
    match &r { Some(Value::Int64(q)) => assert!(b != 0 && *q == a.wrapping_div(b)), None => assert!(b == 0 || (a == i64::MIN && b == -1)), _ => assert!(false) }
    kani::cover!(r.is_none());
    std::mem::forget((p, c, r));
});
expr_h!(x_evalat_index, {
    let (a, b, i): (i64, i64, i64) = (kani::any(), kani::any(), kani::any());
    let p = predx(FilterExpression::IndexAccess { base: Box::new(FilterExpression::List(vec![FilterExpression::Literal(Value::Int64(a)), FilterExpression::Literal(Value::Int64(b))])), index: lit(Value::Int64(i)) });
    let c = DataChunk::empty();
    let r = p.eval_at(&c, 0);
    let want = if i == 0 || i == -2 { Some(a) } else if i == 1 || i == -1 { Some(b) } else { None };
    match &r { Some(Value::Int64(q)) => assert!(want == Some(*q)), None => assert!(want.is_none()), _ => assert!(false) }
    kani::cover!(r.is_none());
    std::mem::forget((p, c, r));
});

use grafeo_core::storage::{BitPackedInts, DeltaBitPacked};
fn eq_u64(a: &[u64], b: &[u64]) -> bool { if a.len() != b.len() { return false; } let mut i = 0; while i < a.len() { if a[i] != b[i] { return false; } i += 1; } true }
macro_rules! dbp_bytes { ($name:ident, $n:expr) => {
    #[kani::proof]
    #[kani::unwind(20)]
    fn $name() {
        let v: [u64; $n] = kani::any();
        let mut i = 1; while i < $n { kani::assume(v[i - 1] <= v[i]); i += 1; }
        let p = DeltaBitPacked::encode(&v);
        let bytes = p.to_bytes();
        let q = DeltaBitPacked::from_bytes(&bytes).unwrap();
        assert!(q.len() == $n && q.is_empty() == ($n == 0), "length changed by the byte round trip");
        assert!(q.base() == p.base() && q.bits_per_delta() == p.bits_per_delta(), "header changed by the byte round trip");
        assert!(eq_u64(&q.decode(), &v), "decode after the byte round trip differs from the input");
        kani::cover!($n == 0 || v[0] == 0);
        std::mem::forget((p, bytes, q));
    }
} }
dbp_bytes!(x_dbp_bytes_n0, 0);
dbp_bytes!(x_dbp_bytes_n1, 1);
dbp_bytes!(x_dbp_bytes_n2, 2);

use grafeo_engine::query::plan::{BinaryOp, LogicalExpression};
use grafeo_engine::query::planner::Planner;
fn prop_e() -> Box<LogicalExpression> { Box::new(LogicalExpression::Property { variable: String::from("n"), property: String::from("k") }) }
fn lit_e(v: i64) -> Box<LogicalExpression> { Box::new(LogicalExpression::Literal(Value::Int64(v))) }
fn cmp_op(c: u8) -> BinaryOp { match c { 0 => BinaryOp::Lt, 1 => BinaryOp::Le, 2 => BinaryOp::Gt, _ => BinaryOp::Ge } }
fn holds(c: u8, x: i64, v: i64) -> bool { match c { 0 => x < v, 1 => x <= v, 2 => x > v, _ => x >= v } }
/// one side of the conjunction: `n.k op v` (flip = false) or `v op' n.k` with the mirrored operator (flip = true); both mean x op v
fn side(c: u8, v: i64, flip: bool) -> Box<LogicalExpression> {
    if flip { let m = match c { 0 => 2, 1 => 3, 2 => 0, _ => 1 }; Box::new(LogicalExpression::Binary { left: lit_e(v), op: cmp_op(m), right: prop_e() }) }
    else { Box::new(LogicalExpression::Binary { left: prop_e(), op: cmp_op(c), right: lit_e(v) }) }
}
expr_h!(x_between, {
    let (c1, c2): (u8, u8) = (kani::any(), kani::any());
    kani::assume(c1 < 4 && c2 < 4);
    let (a, b, x): (i64, i64, i64) = (kani::any(), kani::any(), kani::any());
    let (f1, f2): (bool, bool) = (kani::any(), kani::any());
    let e = LogicalExpression::Binary { left: side(c1, a, f1), op: BinaryOp::And, right: side(c2, b, f2) };
    let pl = Planner::new(Arc::new(LpgStore::new()));
    let r = pl.verif_extract_between_predicate(&e);
    let truth = holds(c1, x, a) && holds(c2, x, b);
    match &r {
        Some((_, _, Value::Int64(lo), Value::Int64(hi), li, ui)) => {
            let in_range = (if *li { x >= *lo } else { x > *lo }) && (if *ui { x <= *hi } else { x < *hi });
            assert!(in_range == truth, "the extracted range is not the set the conjunction describes");
        }
        Some(_) => assert!(false, "bounds changed kind"),
        None => {}
    }
    kani::cover!(r.is_some() && c1 == 1 && c2 == 2);
    kani::cover!(r.is_some() && f1 && !f2);
    std::mem::forget((e, pl, r));
});

fn cmp6(c: u8) -> BinaryOp { match c { 0 => BinaryOp::Eq, 1 => BinaryOp::Ne, 2 => BinaryOp::Lt, 3 => BinaryOp::Le, 4 => BinaryOp::Gt, _ => BinaryOp::Ge } }
fn holds6(c: u8, x: i64, v: i64) -> bool { match c { 0 => x == v, 1 => x != v, 2 => x < v, 3 => x <= v, 4 => x > v, _ => x >= v } }
/// `n.k op l` (flip false) or `l op n.k` (flip true); returns the expression and whether it is true for the stored value v
fn cmp_side(c: u8, v: i64, l: i64, flip: bool) -> (Box<LogicalExpression>, bool) {
    if flip { (Box::new(LogicalExpression::Binary { left: lit_e(l), op: cmp6(c), right: prop_e() }), holds6(c, l, v)) }
    else { (Box::new(LogicalExpression::Binary { left: prop_e(), op: cmp6(c), right: lit_e(l) }), holds6(c, v, l)) }
}
use grafeo_core::execution::operators::{AggregateFunction, VerifAggregateState};
fn fold3(f: AggregateFunction, a: Value, b: Value, c: Value) -> Value {
    let mut s = VerifAggregateState::new(f);
    s.update(Some(a)); s.update(Some(b)); s.update(Some(c));
    let r = s.finalize();
    std::mem::forget(s);
    r
}
#[kani::proof]
#[kani::unwind(4)]
fn x_agg_int() {
    let (a, b, c): (i64, i64, i64) = (kani::any(), kani::any(), kani::any());
    let v = |x: i64| Value::Int64(x);
    // count(*): one update per row, no value
    let mut s = VerifAggregateState::new(AggregateFunction::Count);
    let k: u8 = kani::any(); kani::assume(k <= 3);
    let mut i = 0; while i < 3 { if i < k { s.update(None); } i += 1; }
    assert!(matches!(s.finalize(), Value::Int64(n) if n == k as i64), "count(*) is not the number of rows");
    std::mem::forget(s);
    let r = fold3(AggregateFunction::CountNonNull, v(a), v(b), v(c)); assert!(matches!(r, Value::Int64(3))); std::mem::forget(r);
    let mn = if a <= b && a <= c { a } else if b <= c { b } else { c };
    let mx = if a >= b && a >= c { a } else if b >= c { b } else { c };
    let r = fold3(AggregateFunction::Min, v(a), v(b), v(c)); assert!(matches!(r, Value::Int64(x) if x == mn), "min is not the minimum"); std::mem::forget(r);
    let r = fold3(AggregateFunction::Max, v(a), v(b), v(c)); assert!(matches!(r, Value::Int64(x) if x == mx), "max is not the maximum"); std::mem::forget(r);
    let r = fold3(AggregateFunction::First, v(a), v(b), v(c)); assert!(matches!(r, Value::Int64(x) if x == a)); std::mem::forget(r);
    let r = fold3(AggregateFunction::Last, v(a), v(b), v(c)); assert!(matches!(r, Value::Int64(x) if x == c)); std::mem::forget(r);
    let r = fold3(AggregateFunction::Avg, v(a), v(b), v(c));
    let want = (0.0 + a as f64 + b as f64 + c as f64) / 3.0;
    assert!(matches!(r, Value::Float64(x) if x.to_bits() == want.to_bits()), "avg is not sum / count"); std::mem::forget(r);
    // sum: exact when it fits; never a panic when it does not
    let r = fold3(AggregateFunction::Sum, v(a), v(b), v(c));
    match a.checked_add(b).and_then(|s| s.checked_add(c)) {
        Some(t) => assert!(matches!(r, Value::Int64(x) if x == t), "sum is not the sum"),
        None => assert!(!matches!(r, Value::Int64(_)) , "an overflowing integer sum was reported as an integer"),
    }
    kani::cover!(a.checked_add(b).is_none());
    std::mem::forget(r);
}

#[kani::proof]
#[kani::unwind(4)]
fn x_sum2() {
    let (a, b): (i64, i64) = (kani::any(), kani::any());
    let mut s = VerifAggregateState::new(AggregateFunction::Sum);
    s.update(Some(Value::Int64(a)));
    s.update(Some(Value::Int64(b)));
    let r = s.finalize();
    match a.checked_add(b) {
        Some(t) => assert!(matches!(r, Value::Int64(x) if x == t), "sum is not the sum"),
        None => assert!(matches!(r, Value::Null), "an overflowing integer sum is not NULL"),
    }
    kani::cover!(a.checked_add(b).is_none());
    std::mem::forget((s, r));
}
#[kani::proof]
#[kani::unwind(4)]
fn x_minmax2() {
    let (a, b): (i64, i64) = (kani::any(), kani::any());
    let mut s = VerifAggregateState::new(AggregateFunction::Min);
    s.update(Some(Value::Int64(a)));
    s.update(Some(Value::Int64(b)));
    let r = s.finalize();
    assert!(matches!(r, Value::Int64(x) if x == if a <= b { a } else { b }), "min is not the minimum");
    let mut c = VerifAggregateState::new(AggregateFunction::Count);
    c.update(None); c.update(None);
    let rc = c.finalize();
    assert!(matches!(rc, Value::Int64(2)), "count(*) is not the number of rows");
    kani::cover!(a > b);
    std::mem::forget((s, r, c, rc));
}

fn sum_after(a: i64, b: i64) -> Value {
    let mut s = VerifAggregateState::new(AggregateFunction::Sum);
    s.update(Some(Value::Int64(a)));
    s.update(Some(Value::Int64(b)));
    let r = s.finalize();
    std::mem::forget(s);
    r
}
#[kani::proof]
#[kani::unwind(4)]
fn x_sum2c() {
    let b: i64 = kani::any();
    macro_rules! one { ($a:expr) => {{
        let r = sum_after($a, b);
        match ($a as i64).checked_add(b) {
            Some(t) => assert!(matches!(r, Value::Int64(x) if x == t), "sum is not the sum"),
            None => assert!(matches!(r, Value::Null), "an overflowing integer sum is not NULL"),
        }
        std::mem::forget(r);
    }}; }
    one!(i64::MAX); one!(i64::MIN);
    kani::cover!(i64::MAX.checked_add(b).is_none());
    kani::cover!(i64::MIN.checked_add(b).is_none());
}

#[kani::proof]
#[kani::unwind(4)]
fn x_sum_nopanic() {
    let b: i64 = kani::any();
    let mut s = VerifAggregateState::new(AggregateFunction::Sum);
    s.update(Some(Value::Int64(i64::MAX)));
    s.update(Some(Value::Int64(b)));
    std::mem::forget(s);
    let mut t = VerifAggregateState::new(AggregateFunction::Sum);
    t.update(Some(Value::Int64(i64::MIN)));
    t.update(Some(Value::Int64(b)));
    std::mem::forget(t);
    kani::cover!(b > 0);
    kani::cover!(b < 0);
}
