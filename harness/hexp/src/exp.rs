//@ note: scratch experiments (not registered)
use crate::stubs::*;
use grafeo_core::graph::lpg::LpgStore;
use grafeo_engine::transaction::TransactionManager;
use grafeo_engine::Session;
use std::sync::Arc;
macro_rules! ex { ($name:ident, $body:block) => {
    #[kani::proof]
    #[kani::unwind(5)]
    #[kani::stub(parking_lot::RawRwLock::lock_exclusive_slow, lk_slow)]
    #[kani::stub(parking_lot::RawRwLock::lock_shared_slow, lk_sh_slow)]
    #[kani::stub(parking_lot::RawRwLock::unlock_exclusive_slow, ulk_slow)]
    #[kani::stub(parking_lot::RawRwLock::unlock_shared_slow, ulk_sh_slow)]
    #[kani::stub(parking_lot::RawMutex::lock_slow, mx_lock_slow)]
    #[kani::stub(parking_lot::RawMutex::unlock_slow, mx_unlock_slow)]
    #[kani::stub(alloc::fmt::format, fmt_stub)]
    #[kani::stub(std::hash::RandomState::new, std_rs_new)]
    #[kani::stub(ahash::RandomState::new, ahash_rs_new)]
    fn $name() $body
} }
ex!(s1_session_create_get, {
    let store = Arc::new(LpgStore::new());
    let txm = Arc::new(TransactionManager::new());
    let mut w = Session::verif_new(Arc::clone(&store), Arc::clone(&txm));
    let r = w.begin_tx(); assert!(r.is_ok()); std::mem::forget(r);
    let n = w.create_node(&[]);
    let g = w.get_node(n);
    assert!(g.is_some());
    kani::cover!(true);
    std::mem::forget((g, w, store, txm));
});
