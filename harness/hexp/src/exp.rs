//@ note: scratch experiments (not registered)
use crate::stubs::*;
use grafeo_core::index::vector::BinaryQuantizer;
use grafeo_common::memory::buffer::{BufferManager, BufferManagerConfig, GrantReleaser, MemoryGrant, MemoryRegion};

#[kani::proof]
#[kani::unwind(5)]
fn x_c18_binary_quantizer() {
    let a: [f32; 3] = [f32::from_bits(kani::any()), f32::from_bits(kani::any()), f32::from_bits(kani::any())];
    let b: [f32; 3] = [f32::from_bits(kani::any()), f32::from_bits(kani::any()), f32::from_bits(kani::any())];
    let (qa, qb) = (BinaryQuantizer::quantize(&a), BinaryQuantizer::quantize(&b));
    assert!(qa.len() == 1 && qb.len() == 1 && BinaryQuantizer::words_needed(3) == 1);
    let mut i = 0;
    while i < 3 { assert!(((qa[0] >> i) & 1 == 1) == (a[i] >= 0.0), "bit is not the sign of the component"); i += 1; }
    assert!(qa[0] >> 3 == 0);
    let mut diff = 0u32; let mut i = 0;
    while i < 3 { if (a[i] >= 0.0) != (b[i] >= 0.0) { diff += 1; } i += 1; }
    assert!(BinaryQuantizer::hamming_distance(&qa, &qb) == diff, "Hamming distance is not the number of sign disagreements");
    assert!(BinaryQuantizer::hamming_distance(&qa, &qb) == BinaryQuantizer::hamming_distance(&qb, &qa));
    assert!(BinaryQuantizer::hamming_distance(&qa, &qa) == 0);
    kani::cover!(diff == 3);
    kani::cover!(diff == 0 && a[0].is_nan());
    std::mem::forget((qa, qb));
}

fn no_eviction(_m: &BufferManager, _to_free: usize) -> usize { 0 }
#[kani::proof]
#[kani::unwind(4)]
#[kani::stub(parking_lot::RawRwLock::lock_exclusive_slow, lk_slow)]
#[kani::stub(parking_lot::RawRwLock::lock_shared_slow, lk_sh_slow)]
#[kani::stub(parking_lot::RawRwLock::unlock_exclusive_slow, ulk_slow)]
#[kani::stub(parking_lot::RawRwLock::unlock_shared_slow, ulk_sh_slow)]
#[kani::stub(alloc::fmt::format, fmt_stub)]
#[kani::stub(grafeo_common::memory::buffer::manager::BufferManager::run_eviction_internal, no_eviction)]
fn x_c20_split_merge() {
    let m = BufferManager::new(BufferManagerConfig { budget: 1000, soft_limit_fraction: 1.0, evict_limit_fraction: 1.0, hard_limit_fraction: 1.0, background_eviction: false, spill_path: None });
    let s: usize = kani::any(); kani::assume(s <= 1000);
    let amt: usize = kani::any();
    let g = m.try_allocate(s, MemoryRegion::GraphStorage);
    if let Some(mut g) = g {
        let h = g.split(amt);
        match h {
            Some(h) => {
                assert!(amt <= s && g.size() + h.size() == s && h.size() == amt, "split loses or invents bytes");
                assert!(m.allocated() == s);
                g.merge(h);
                assert!(g.size() == s && m.allocated() == s, "merge loses or invents bytes");
            }
            None => { assert!(amt > s && g.size() == s && m.allocated() == s); }
        }
        m.release(g.size(), g.region());
        assert!(m.allocated() == 0);
        kani::cover!(amt < s);
        std::mem::forget(g);
    }
    std::mem::forget(m);
}
