//! Environment cuts. Every stub is part of the claim of each harness that names it.
use std::time::Instant;

pub fn lk_slow(_s: &parking_lot::RawRwLock, _t: Option<Instant>) -> bool { kani::assume(false); true }
pub fn lk_sh_slow(_s: &parking_lot::RawRwLock, _r: bool, _t: Option<Instant>) -> bool { kani::assume(false); true }
pub fn ulk_slow(_s: &parking_lot::RawRwLock, _f: bool) { kani::assume(false); }
pub fn ulk_sh_slow(_s: &parking_lot::RawRwLock) { kani::assume(false); }
pub fn mx_lock_slow(_s: &parking_lot::RawMutex, _t: Option<Instant>) -> bool { kani::assume(false); true }
pub fn mx_unlock_slow(_s: &parking_lot::RawMutex, _f: bool) { kani::assume(false); }
pub fn std_rs_new() -> std::hash::RandomState { unsafe { std::mem::transmute::<[u64; 2], std::hash::RandomState>([1, 2]) } }
pub fn ahash_rs_new() -> ahash::RandomState { ahash::RandomState::with_seeds(1, 2, 3, 4) }
pub fn fmt_stub(_a: std::fmt::Arguments<'_>) -> String { String::new() }
pub fn regex_new_stub(_p: &str) -> Result<regex::Regex, regex::Error> { Err(regex::Error::Syntax(String::new())) }

// dashmap's own RawRwLock slow paths (private module path): same treatment as parking_lot's
pub fn dm_lock_excl_slow(_s: &dashmap::RawRwLock) { kani::assume(false); }
pub fn dm_unlock_excl_slow(_s: &dashmap::RawRwLock) { kani::assume(false); }
pub fn dm_lock_shared_slow(_s: &dashmap::RawRwLock) { kani::assume(false); }
pub fn dm_unlock_shared_slow(_s: &dashmap::RawRwLock) { kani::assume(false); }
