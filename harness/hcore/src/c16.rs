//! C16 — values compare, hash, order and serialise consistently.
use crate::sym::*;
use grafeo_common::types::{HashableValue, OrderableValue, OrderedFloat64, Timestamp, Value};
use grafeo_core::execution::spill::{deserialize_value, serialize_value};
use std::cmp::Ordering;
use std::sync::Arc;

/// OrderableValue of a given scalar kind (no String), all bit patterns.
fn ov(kind: u8) -> OrderableValue {
    match kind {
        0 => OrderableValue::Bool(kani::any()),
        1 => OrderableValue::Int64(kani::any()),
        2 => OrderableValue::Float64(OrderedFloat64(f64::from_bits(kani::any()))),
        _ => OrderableValue::Timestamp(Timestamp::from_micros(kani::any())),
    }
}
fn any_kind() -> u8 { let k: u8 = kani::any(); kani::assume(k < 4); k }
fn is_num(v: &OrderableValue) -> bool { matches!(v, OrderableValue::Int64(_) | OrderableValue::Float64(_)) }
fn mixed_num(a: &OrderableValue, b: &OrderableValue) -> bool {
    matches!((a, b), (OrderableValue::Int64(_), OrderableValue::Float64(_)) | (OrderableValue::Float64(_), OrderableValue::Int64(_)))
}

//@ property: C16
//@ tier: quick
//@ cap_s: 120
//@ encodes: OrderedFloat64::{eq,cmp,partial_cmp}
//@ symbolic: three f64 (all bit patterns)
//@ bound: no loops; all values
//@ oracle: Eq reflexive/symmetric/transitive; cmp total, antisymmetric, transitive; cmp==Equal <=> ==
#[kani::proof]
#[kani::unwind(2)]
fn c16_of64_order_laws() {
    let a = OrderedFloat64(f64::from_bits(kani::any()));
    let b = OrderedFloat64(f64::from_bits(kani::any()));
    let c = OrderedFloat64(f64::from_bits(kani::any()));
    assert!(a == a);
    assert!((a == b) == (b == a));
    assert!((a.cmp(&b) == Ordering::Equal) == (a == b));
    assert!(a.cmp(&b) == b.cmp(&a).reverse());
    assert!(a.partial_cmp(&b) == Some(a.cmp(&b)));
    if a.cmp(&b) != Ordering::Greater && b.cmp(&c) != Ordering::Greater { assert!(a.cmp(&c) != Ordering::Greater); }
    if a == b && b == c { assert!(a == c); }
    kani::cover!(a == b && a.0.to_bits() != b.0.to_bits());
}

//@ property: C16
//@ tier: quick
//@ cap_s: 120
//@ encodes: OrderedFloat64::{eq,hash}
//@ symbolic: two f64 (all bit patterns)
//@ bound: all values; hash stream compared word by word (recording hasher, <= 4 writes)
//@ oracle: a == b implies identical Hash streams
#[kani::proof]
#[kani::unwind(9)]
fn c16_of64_eq_hash() {
    let a = OrderedFloat64(f64::from_bits(kani::any()));
    let b = OrderedFloat64(f64::from_bits(kani::any()));
    kani::cover!(a == b && a.0.to_bits() != b.0.to_bits());
    if a == b { assert!(stream(&a).same(&stream(&b))); }
}


/// laws for one ordered pair of variants; returns (a == b, a < b) for the caller's cover points
fn ov_pair_laws(ka: u8, kb: u8) -> (bool, bool) {
    let (a, b) = (ov(ka), ov(kb));
    let e = a == b;
    let o = a.cmp(&b);
    assert!(a == a);
    assert!(e == (b == a));
    assert!(o == b.cmp(&a).reverse());
    assert!((o == Ordering::Equal) == e);
    assert!(a.partial_cmp(&b) == Some(o));
    (e, o == Ordering::Less)
}
fn ov_pair_hash(ka: u8, kb: u8) -> bool {
    let (a, b) = (ov(ka), ov(kb));
    let e = a == b;
    if e { assert!(stream(&a).same(&stream(&b))); }
    e
}

//@ property: C16
//@ tier: quick
//@ cap_s: 300
//@ encodes: OrderableValue::{eq,cmp,partial_cmp,hash,type_ordinal}, OrderedFloat64::{eq,cmp,hash}
//@ symbolic: two OrderableValue, the 12 ordered variant pairs with at least one of Bool/Timestamp, all payload bits
//@ bound: String variant excluded; no loops
//@ oracle: Eq reflexive/symmetric; cmp antisymmetric; cmp==Equal <=> ==; partial_cmp == Some(cmp); a==b => identical Hash streams
#[kani::proof]
#[kani::unwind(2)]
fn c16_ov_pair_laws_nonnumeric() {
    let r = ov_pair_laws(0,0); kani::cover!(r.0); ov_pair_hash(0,0);
    ov_pair_laws(0,1); ov_pair_laws(0,2); let r = ov_pair_laws(0,3); kani::cover!(r.1); ov_pair_laws(1,0); ov_pair_laws(1,3);
    ov_pair_laws(2,0); ov_pair_laws(2,3); ov_pair_laws(3,0); ov_pair_laws(3,1); ov_pair_laws(3,2); ov_pair_laws(3,3);
    ov_pair_hash(3,3); ov_pair_hash(0,1); ov_pair_hash(0,2); ov_pair_hash(0,3); ov_pair_hash(1,3); ov_pair_hash(2,3);
}

macro_rules! ov_pair_h { ($name:ident, $f:ident, $a:expr, $b:expr) => {
    #[kani::proof]
    #[kani::unwind(2)]
    fn $name() { let r = $f($a, $b); kani::cover!(r.0); }
} }
fn ov_hash2(a: u8, b: u8) -> (bool, bool) { (ov_pair_hash(a, b), false) }
//@ property: C16
//@ tier: quick
//@ cap_s: 300
//@ unwind: 2
//@ encodes: OrderableValue::{eq,cmp,partial_cmp}
//@ symbolic: two Int64 (all bits)
//@ bound: no loops
//@ oracle: Eq reflexive/symmetric; cmp antisymmetric; cmp==Equal <=> ==; partial_cmp == Some(cmp)
ov_pair_h!(c16_ov_pair_int_int, ov_pair_laws, 1, 1);
//@ property: C16
//@ tier: quick
//@ cap_s: 300
//@ unwind: 2
//@ encodes: OrderableValue::{eq,cmp,partial_cmp}, cmp_i64_f64
//@ symbolic: Int64 and Float64 (all bits)
//@ bound: no loops
//@ oracle: Eq symmetric; cmp antisymmetric; cmp==Equal <=> ==
ov_pair_h!(c16_ov_pair_int_float, ov_pair_laws, 1, 2);
//@ property: C16
//@ tier: quick
//@ cap_s: 300
//@ unwind: 2
//@ encodes: OrderableValue::{eq,cmp,partial_cmp}, OrderedFloat64::{eq,cmp}
//@ symbolic: two Float64 (all bits)
//@ bound: no loops
//@ oracle: Eq/Ord laws (NaN payloads, signed zeros)
ov_pair_h!(c16_ov_pair_float_float, ov_pair_laws, 2, 2);
//@ property: C16
//@ tier: quick
//@ cap_s: 300
//@ unwind: 2
//@ encodes: OrderableValue::{eq,hash}, cmp_i64_f64, exact_i64
//@ symbolic: Int64 and Float64 (all bits)
//@ bound: no loops
//@ oracle: a == b => identical Hash streams (1 == 1.0 hash equally)
ov_pair_h!(c16_ov_hash_int_float, ov_hash2, 1, 2);
//@ property: C16
//@ tier: quick
//@ cap_s: 300
//@ unwind: 2
//@ encodes: OrderableValue::{eq,hash}, OrderedFloat64::{eq,hash}, exact_i64
//@ symbolic: two Float64 (all bits)
//@ bound: no loops
//@ oracle: a == b => identical Hash streams (NaN payloads, -0.0/0.0, integral floats)
ov_pair_h!(c16_ov_hash_float_float, ov_hash2, 2, 2);
//@ property: C16
//@ tier: quick
//@ cap_s: 300
//@ unwind: 2
//@ encodes: OrderableValue::{eq,hash}
//@ symbolic: two Int64 (all bits)
//@ bound: no loops
//@ oracle: a == b => identical Hash streams
ov_pair_h!(c16_ov_hash_int_int, ov_hash2, 1, 1);

/// transitivity of <= and of == for a triple of kinds
fn ov_triple(ka: u8, kb: u8, kc: u8) {
    let (a, b, c) = (ov(ka), ov(kb), ov(kc));
    if a.cmp(&b) != Ordering::Greater && b.cmp(&c) != Ordering::Greater { assert!(a.cmp(&c) != Ordering::Greater); }
    if a == b && b == c { assert!(a == c); }
}

//@ property: C16
//@ tier: quick
//@ cap_s: 600
//@ encodes: OrderableValue::{eq,cmp}, cmp_i64_f64, OrderedFloat64::cmp
//@ symbolic: three numeric OrderableValue: all 8 variant triples over Int64/Float64 unrolled, all payload bits
//@ bound: numeric variants (the only ones with cross-type equality); no loops
//@ oracle: <= transitive and == transitive (the 2^53+1 / 2^53.0 / 2^53 shape)
#[kani::proof]
#[kani::unwind(2)]
fn c16_ov_numeric_transitive() {
    ov_triple(1,1,1); ov_triple(1,1,2); ov_triple(1,2,1); ov_triple(1,2,2);
    ov_triple(2,1,1); ov_triple(2,1,2); ov_triple(2,2,1); ov_triple(2,2,2);
    kani::cover!(true);
}

//@ property: C16
//@ tier: quick
//@ cap_s: 300
//@ encodes: OrderableValue::{eq,cmp,type_ordinal}
//@ symbolic: three OrderableValue, variant triples that include a non-numeric variant (Bool/Timestamp with Int64/Float64), all payload bits
//@ bound: 14 representative variant triples (each position ranges over Bool, Int64, Float64, Timestamp with at least one non-numeric); no loops
//@ oracle: <= transitive and == transitive across type-ordinal ordering
#[kani::proof]
#[kani::unwind(2)]
fn c16_ov_mixed_transitive() {
    ov_triple(0,0,0); ov_triple(3,3,3); ov_triple(0,1,2); ov_triple(0,2,1); ov_triple(1,0,2); ov_triple(2,0,1); ov_triple(1,2,0);
    ov_triple(2,1,0); ov_triple(0,1,3); ov_triple(3,1,0); ov_triple(1,3,2); ov_triple(2,3,1); ov_triple(0,3,0); ov_triple(3,0,3);
    kani::cover!(true);
}

fn scalar(kind: u8) -> Value {
    match kind {
        0 => Value::Null,
        1 => Value::Bool(kani::any()),
        2 => Value::Int64(kani::any()),
        3 => Value::Float64(f64::from_bits(kani::any())),
        _ => Value::Timestamp(Timestamp::from_micros(kani::any())),
    }
}
fn any_skind() -> u8 { let k: u8 = kani::any(); kani::assume(k < 5); k }

fn hv_pair(ka: u8, kb: u8) {
    let a = HashableValue(scalar(ka));
    let b = HashableValue(scalar(kb));
    let e = a == b;
    assert!(a == a);
    assert!(e == (b == a));
    if ka != kb { assert!(!e); }
    if e { assert!(stream(&a).same(&stream(&b))); }
    if let (Value::Float64(x), Value::Float64(y)) = (&a.0, &b.0) {
        assert!(e == (x.to_bits() == y.to_bits()));
        kani::cover!(e && x.is_nan());
        kani::cover!(!e && x == y);
    }
    std::mem::forget((a, b));
}
fn hv_triple(k: u8) {
    let (a, b, c) = (HashableValue(scalar(k)), HashableValue(scalar(k)), HashableValue(scalar(k)));
    if a == b && b == c { assert!(a == c); }
    std::mem::forget((a, b, c));
}

//@ property: C16
//@ tier: quick
//@ cap_s: 300
//@ encodes: HashableValue::{eq,hash}, Value::eq (derived)
//@ symbolic: two scalar Values, all 25 ordered variant pairs among Null/Bool/Int64/Float64/Timestamp unrolled, all payload bits
//@ bound: scalars only (strings/bytes/lists/vectors in other harnesses; maps outside)
//@ oracle: Eq reflexive, symmetric, only within one variant; a==b => identical Hash streams; Float64 equality is bit equality
#[kani::proof]
#[kani::unwind(3)]
fn c16_hv_scalar_eq_hash() {
    hv_pair(0,0); hv_pair(0,1); hv_pair(0,2); hv_pair(0,3); hv_pair(0,4);
    hv_pair(1,0); hv_pair(1,1); hv_pair(1,2); hv_pair(1,3); hv_pair(1,4);
    hv_pair(2,0); hv_pair(2,1); hv_pair(2,2); hv_pair(2,3); hv_pair(2,4);
    hv_pair(3,0); hv_pair(3,1); hv_pair(3,2); hv_pair(3,3); hv_pair(3,4);
    hv_pair(4,0); hv_pair(4,1); hv_pair(4,2); hv_pair(4,3); hv_pair(4,4);
}

//@ property: C16
//@ tier: quick
//@ cap_s: 300
//@ encodes: HashableValue::eq, Value::eq (derived)
//@ symbolic: three scalar Values of one variant (each of the 5 scalar variants unrolled), all payload bits
//@ bound: scalars only; cross-variant triples are covered by c16_hv_scalar_eq_hash (equality never holds across variants)
//@ oracle: Eq transitive
#[kani::proof]
#[kani::unwind(3)]
fn c16_hv_scalar_transitive() {
    hv_triple(0); hv_triple(1); hv_triple(2); hv_triple(3); hv_triple(4);
    kani::cover!(true);
}

fn hv_rec16(a: &HashableValue, b: &HashableValue) -> bool {
    let (mut ha, mut hb) = (Rec16::new(), Rec16::new());
    std::hash::Hash::hash(a, &mut ha); std::hash::Hash::hash(b, &mut hb);
    ha.same(&hb)
}

//@ property: C16
//@ tier: quick
//@ cap_s: 300
//@ encodes: HashableValue::{eq,hash} Vector arm
//@ symbolic: two vectors of two f32 each (all bit patterns)
//@ bound: vectors of exactly 2 elements
//@ oracle: reflexive (NaN elements included), symmetric, equality is bit equality, a==b => identical Hash streams
#[kani::proof]
#[kani::unwind(4)]
fn c16_hv_vector_laws() {
    let x: [u32; 2] = kani::any(); let y: [u32; 2] = kani::any();
    let a = HashableValue(Value::Vector(Arc::from([f32::from_bits(x[0]), f32::from_bits(x[1])])));
    let b = HashableValue(Value::Vector(Arc::from([f32::from_bits(y[0]), f32::from_bits(y[1])])));
    let e = a == b;
    assert!(a == a);
    assert!(e == (b == a));
    assert!(e == (x[0] == y[0] && x[1] == y[1]));
    if e { assert!(hv_rec16(&a, &b)); }
    kani::cover!(e);
    std::mem::forget((a, b));
}

//@ property: C16
//@ tier: quick
//@ cap_s: 300
//@ mem_gb: 10
//@ encodes: HashableValue::{eq,hash} List arm (recursive), Value::clone
//@ symbolic: two lists [Int64 i, Float64 f] (all payload bits)
//@ bound: lists of exactly 2 scalar elements, element variants fixed Int64 then Float64
//@ oracle: reflexive (NaN inside a list included), symmetric, a==b => identical Hash streams
#[kani::proof]
#[kani::unwind(4)]
fn c16_hv_list_laws() {
    let a = HashableValue(Value::List(Arc::from([Value::Int64(kani::any()), Value::Float64(f64::from_bits(kani::any()))])));
    let b = HashableValue(Value::List(Arc::from([Value::Int64(kani::any()), Value::Float64(f64::from_bits(kani::any()))])));
    let e = a == b;
    assert!(a == a);
    assert!(e == (b == a));
    if e { assert!(hv_rec16(&a, &b)); }
    kani::cover!(e);
    std::mem::forget((a, b));
}

macro_rules! spill_rt {
    ($name:ident, $mk:expr, $cmp:expr) => {
        #[kani::proof]
        #[kani::unwind(12)]
        fn $name() {
            let v: Value = $mk;
            let mut buf: Vec<u8> = Vec::with_capacity(32);
            let n = serialize_value(&v, &mut buf).unwrap();
            assert!(n == buf.len());
            let mut rd: &[u8] = &buf[..];
            let back = deserialize_value(&mut rd).unwrap();
            assert!(rd.is_empty());
            let same: bool = $cmp(&v, &back);
            assert!(same);
            kani::cover!(n > 1);
            std::mem::forget((v, back, buf));
        }
    };
}
fn bits_eq(a: &Value, b: &Value) -> bool {
    match (a, b) {
        (Value::Null, Value::Null) => true,
        (Value::Bool(x), Value::Bool(y)) => x == y,
        (Value::Int64(x), Value::Int64(y)) => x == y,
        (Value::Float64(x), Value::Float64(y)) => x.to_bits() == y.to_bits(),
        (Value::Timestamp(x), Value::Timestamp(y)) => x.as_micros() == y.as_micros(),
        _ => false,
    }
}
//@ property: C16
//@ tier: quick
//@ cap_s: 300
//@ unwind: 12
//@ encodes: spill::serialize_value, spill::deserialize_value (Vec<u8> writer, &[u8] reader)
//@ symbolic: payload bits of one Value variant (see harness name)
//@ bound: one scalar variant per harness
//@ oracle: deserialize(serialize(v)) == v bit for bit; bytes written == returned length; reader fully consumed
spill_rt!(c16_spill_bool, Value::Bool(kani::any()), bits_eq);
//@ property: C16
//@ tier: quick
//@ cap_s: 300
//@ unwind: 12
//@ encodes: spill::serialize_value, spill::deserialize_value (Vec<u8> writer, &[u8] reader)
//@ symbolic: payload bits of one Value variant (see harness name)
//@ bound: one scalar variant per harness
//@ oracle: deserialize(serialize(v)) == v bit for bit; bytes written == returned length; reader fully consumed
spill_rt!(c16_spill_int, Value::Int64(kani::any()), bits_eq);
//@ property: C16
//@ tier: quick
//@ cap_s: 300
//@ unwind: 12
//@ encodes: spill::serialize_value, spill::deserialize_value (Vec<u8> writer, &[u8] reader)
//@ symbolic: payload bits of one Value variant (see harness name)
//@ bound: one scalar variant per harness
//@ oracle: deserialize(serialize(v)) == v bit for bit; bytes written == returned length; reader fully consumed
spill_rt!(c16_spill_float, Value::Float64(f64::from_bits(kani::any())), bits_eq);
//@ property: C16
//@ tier: quick
//@ cap_s: 300
//@ unwind: 12
//@ encodes: spill::serialize_value, spill::deserialize_value (Vec<u8> writer, &[u8] reader)
//@ symbolic: payload bits of one Value variant (see harness name)
//@ bound: one scalar variant per harness
//@ oracle: deserialize(serialize(v)) == v bit for bit; bytes written == returned length; reader fully consumed
spill_rt!(c16_spill_ts, Value::Timestamp(Timestamp::from_micros(kani::any())), bits_eq);

fn s1(b: u8) -> arcstr::ArcStr { let arr = [b]; arcstr::ArcStr::from(unsafe { std::str::from_utf8_unchecked(&arr) }) }

//@ property: C16
//@ tier: quick
//@ cap_s: 600
//@ mem_gb: 10
//@ encodes: OrderableValue::{eq,cmp,hash} String arm and String vs Int64/Bool/Timestamp, HashableValue::{eq,hash} String arm
//@ symbolic: three one-byte ASCII strings (content symbolic), an Int64 payload
//@ bound: strings of exactly one byte
//@ oracle: String ordering is the byte ordering; Eq/Ord/Hash laws on strings; a string never equals a value of another type and orders by type ordinal against it
#[kani::proof]
#[kani::unwind(6)]
fn c16_string_laws() {
    let (x, y, z): (u8, u8, u8) = (kani::any(), kani::any(), kani::any());
    kani::assume(x < 128 && y < 128 && z < 128);
    let (a, b, c) = (OrderableValue::String(s1(x)), OrderableValue::String(s1(y)), OrderableValue::String(s1(z)));
    assert!((a == b) == (x == y));
    assert!(a.cmp(&b) == x.cmp(&y));
    assert!(a.cmp(&b) == b.cmp(&a).reverse());
    if a.cmp(&b) != Ordering::Greater && b.cmp(&c) != Ordering::Greater { assert!(a.cmp(&c) != Ordering::Greater); }
    if a == b { assert!(stream(&a).same(&stream(&b))); }
    let i = OrderableValue::Int64(kani::any());
    assert!(a != i && i != a);
    assert!(i.cmp(&a) == Ordering::Less && a.cmp(&i) == Ordering::Greater);
    let (ha, hb) = (HashableValue(Value::String(s1(x))), HashableValue(Value::String(s1(y))));
    assert!((ha == hb) == (x == y));
    if ha == hb { assert!(stream(&ha).same(&stream(&hb))); }
    kani::cover!(x == y && y != z);
    std::mem::forget((a, b, c, i, ha, hb));
}
