//! C10 / C14 — min/max (zone-map) pruning never claims "no match" when the filter would match.
//! Differential between two pieces of real code: PropertyStorage::might_match (what the planner asks)
//! and the filter evaluator's own comparison semantics (hook H9).
use crate::stubs::*;
use crate::expr::{operand, pred};
use grafeo_common::types::{NodeId, PropertyKey, Value};
use grafeo_core::execution::operators::{BinaryFilterOp, ExpressionPredicate};
use grafeo_core::graph::lpg::{CompareOp, PropertyStorage};

fn filter_true(p: &ExpressionPredicate, stored: &Value, op: BinaryFilterOp, lit: &Value) -> bool {
    let r = p.verif_eval_binary_op(stored, op, lit);
    let t = matches!(r, Some(Value::Bool(true)));
    std::mem::forget(r);
    t
}
fn clone_scalar(v: &Value) -> Value { match v { Value::Null => Value::Null, Value::Bool(b) => Value::Bool(*b), Value::Int64(i) => Value::Int64(*i), Value::Float64(f) => Value::Float64(*f), Value::Timestamp(t) => Value::Timestamp(*t), _ => Value::Null } }

/// two stored values of kinds (ka,kb) on two nodes, a literal of kind kl; all six comparison operators
fn prune_sound(p: &ExpressionPredicate, ka: u8, kb: u8, kl: u8, nan_free: bool) -> bool {
    let st: PropertyStorage<NodeId> = PropertyStorage::new();
    let key = PropertyKey::new("k");
    let (a, b, lit) = (operand(ka), operand(kb), operand(kl));
    // open known finding c10_mixed_column_beyond_2p53 (KNOWN_FINDINGS.txt): a column mixing integers beyond 2^53 with floats
    #[cfg(feature = "kf_c10_mixed_column_beyond_2p53")]
    if (ka == 2 && kb == 3) || (ka == 3 && kb == 2) {
        const LIM: i64 = 1 << 53;
        if let Value::Int64(i) = &a { kani::assume(*i >= -LIM && *i <= LIM); }
        if let Value::Int64(i) = &b { kani::assume(*i >= -LIM && *i <= LIM); }
        if let Value::Int64(i) = &lit { kani::assume(*i >= -LIM && *i <= LIM); }
    }
    if nan_free {
        if let Value::Float64(f) = &a { kani::assume(!f.is_nan()); }
        if let Value::Float64(f) = &b { kani::assume(!f.is_nan()); }
        if let Value::Float64(f) = &lit { kani::assume(!f.is_nan()); }
    }
    st.set(NodeId::new(1), key.clone(), clone_scalar(&a));
    st.set(NodeId::new(2), key.clone(), clone_scalar(&b));
    let mut any_match = false;
    macro_rules! one { ($cop:expr, $fop:expr) => {{
        let matches = filter_true(p, &a, $fop, &lit) || filter_true(p, &b, $fop, &lit);
        let may = st.might_match(&key, $cop, &lit);
        if matches { any_match = true; assert!(may, "pruning says 'no match' although the filter matches a stored value"); }
    }}; }
    one!(CompareOp::Eq, BinaryFilterOp::Eq); one!(CompareOp::Ne, BinaryFilterOp::Ne);
    one!(CompareOp::Lt, BinaryFilterOp::Lt); one!(CompareOp::Le, BinaryFilterOp::Le);
    one!(CompareOp::Gt, BinaryFilterOp::Gt); one!(CompareOp::Ge, BinaryFilterOp::Ge);
    std::mem::forget((st, key, a, b, lit));
    any_match
}

macro_rules! c10_h {
    ($name:ident, $body:block) => {
        #[kani::proof]
        #[kani::unwind(5)]
        #[kani::stub(parking_lot::RawRwLock::lock_exclusive_slow, lk_slow)]
        #[kani::stub(parking_lot::RawRwLock::lock_shared_slow, lk_sh_slow)]
        #[kani::stub(parking_lot::RawRwLock::unlock_exclusive_slow, ulk_slow)]
        #[kani::stub(parking_lot::RawRwLock::unlock_shared_slow, ulk_sh_slow)]
        #[kani::stub(parking_lot::RawMutex::lock_slow, mx_lock_slow)]
        #[kani::stub(parking_lot::RawMutex::unlock_slow, mx_unlock_slow)]
        #[kani::stub(alloc::fmt::format, fmt_stub)]
        #[kani::stub(std::hash::RandomState::new, std_rs_new)]
        #[kani::stub(ahash::RandomState::new, ahash_rs_new)]
        #[kani::stub(regex::Regex::new, regex_new_stub)]
        fn $name() $body
    };
}

//@ property: C10
//@ tier: quick
//@ cap_s: 600
//@ mem_gb: 10
//@ stubs: parking_lot slow paths, alloc::fmt::format, RandomState::new, regex::Regex::new
//@ encodes: PropertyStorage::{new,set,might_match}, PropertyColumn::{set,update_zone_map_on_insert,might_match}, ZoneMapEntry::might_contain_*, ExpressionPredicate::{eval_binary_op,values_equal,compare_values}
//@ symbolic: two stored Int64 values and an Int64 literal (all i64), all six comparison operators
//@ bound: one property column, two nodes, no removals
//@ oracle: if the filter's own comparison is true for a stored value, might_match must not return false
c10_h!(c10_prune_int_int, { let p = pred(); let m = prune_sound(&p, 2, 2, 2, false); kani::cover!(m); std::mem::forget(p); });

//@ property: C10
//@ tier: quick
//@ cap_s: 600
//@ mem_gb: 10
//@ stubs: parking_lot slow paths, alloc::fmt::format, RandomState::new, regex::Regex::new
//@ encodes: as c10_prune_int_int
//@ symbolic: stored values and literal over mismatched kinds: (Int64,Bool) vs Int64 literal, (Null,Int64) vs Int64, (Bool,Bool) vs Bool, (Timestamp,Int64) vs Timestamp
//@ bound: one property column, two nodes
//@ oracle: pruning soundness against the filter semantics for heterogeneous columns
c10_h!(c10_prune_mixed_kinds, {
    let p = pred();
    let m1 = prune_sound(&p, 2, 1, 2, false); let m2 = prune_sound(&p, 0, 2, 2, false); let m3 = prune_sound(&p, 1, 1, 1, false); let m4 = prune_sound(&p, 4, 2, 4, false);
    kani::cover!(m1 && m2); std::mem::forget(p);
});

//@ property: C10
//@ tier: quick
//@ cap_s: 900
//@ mem_gb: 12
//@ stubs: parking_lot slow paths, alloc::fmt::format, RandomState::new, regex::Regex::new
//@ encodes: as c10_prune_int_int
//@ symbolic: two stored Float64 values and a Float64 literal (all non-NaN bit patterns)
//@ bound: one property column, two nodes; NaN excluded here (see the NaN harness)
//@ oracle: pruning soundness against the filter semantics (the filter's equality is |a-b| < EPSILON)
c10_h!(c10_prune_float_float, { let p = pred(); let m = prune_sound(&p, 3, 3, 3, true); kani::cover!(m); std::mem::forget(p); });

//@ property: C10
//@ tier: quick
//@ cap_s: 900
//@ mem_gb: 12
//@ stubs: parking_lot slow paths, alloc::fmt::format, RandomState::new, regex::Regex::new
//@ encodes: as c10_prune_int_int, with the Int64/Float64 cross comparisons of property.rs and zone_map.rs compare_values
//@ symbolic: a column holding an Int64 and a Float64 (all i64, all non-NaN doubles), probed with an Int64 literal and with a Float64 literal
//@ bound: one property column, two nodes, both insertion orders
//@ oracle: pruning soundness against the filter semantics for a column that mixes integers and floats
c10_h!(c10_prune_int_float_column, {
    let p = pred();
    let m1 = prune_sound(&p, 2, 3, 2, true); let m2 = prune_sound(&p, 3, 2, 3, true);
    kani::cover!(m1 && m2);
    std::mem::forget(p);
});

/// history on one column: set(n1,a); set(n2,b); then the update WHAT: 0 overwrite n1 with c, 1 remove n1, 2 remove n1 + rebuild,
/// 3 overwrite n1 + rebuild, 4 remove n1 then set n1 = c (a write on a column whose summary is stale); afterwards pruning (six operators) must stay sound for the LIVE values
fn prune_sound_after_update(p: &ExpressionPredicate, kind: u8, what: u8, nan_free: bool) -> bool {
    let st: PropertyStorage<NodeId> = PropertyStorage::new();
    let key = PropertyKey::new("k");
    let (a, b, c, lit) = (operand(kind), operand(kind), operand(kind), operand(kind));
    if nan_free {
        if let Value::Float64(f) = &a { kani::assume(!f.is_nan()); }
        if let Value::Float64(f) = &b { kani::assume(!f.is_nan()); }
        if let Value::Float64(f) = &c { kani::assume(!f.is_nan()); }
        if let Value::Float64(f) = &lit { kani::assume(!f.is_nan()); }
    }
    st.set(NodeId::new(1), key.clone(), clone_scalar(&a));
    st.set(NodeId::new(2), key.clone(), clone_scalar(&b));
    // live value on n1 afterwards (None = removed); n2 keeps b
    let live1: Option<&Value> = if what == 0 || what == 3 { st.set(NodeId::new(1), key.clone(), clone_scalar(&c)); Some(&c) }
        else if what == 4 { let r = st.remove(NodeId::new(1), &key); std::mem::forget(r); st.set(NodeId::new(1), key.clone(), clone_scalar(&c)); Some(&c) }
        else { let r = st.remove(NodeId::new(1), &key); std::mem::forget(r); None };
    if what == 2 || what == 3 { st.rebuild_zone_maps(); }
    let mut any_match = false;
    macro_rules! one { ($cop:expr, $fop:expr) => {{
        let matches = filter_true(p, &b, $fop, &lit) || match live1 { Some(v) => filter_true(p, v, $fop, &lit), None => false };
        let may = st.might_match(&key, $cop, &lit);
        if matches { any_match = true; assert!(may, "pruning says 'no match' although the filter matches a live value"); }
    }}; }
    one!(CompareOp::Eq, BinaryFilterOp::Eq); one!(CompareOp::Ne, BinaryFilterOp::Ne);
    one!(CompareOp::Lt, BinaryFilterOp::Lt); one!(CompareOp::Le, BinaryFilterOp::Le);
    one!(CompareOp::Gt, BinaryFilterOp::Gt); one!(CompareOp::Ge, BinaryFilterOp::Ge);
    std::mem::forget((st, key, a, b, c, lit));
    any_match
}

/// range form on a two-value column: lit <(=) v <(=) lit2, also with either bound absent
fn prune_range_sound(p: &ExpressionPredicate, kind: u8, nan_free: bool) -> bool {
    let st: PropertyStorage<NodeId> = PropertyStorage::new();
    let key = PropertyKey::new("k");
    let (a, b, lit, lit2) = (operand(kind), operand(kind), operand(kind), operand(kind));
    if nan_free {
        if let Value::Float64(f) = &a { kani::assume(!f.is_nan()); }
        if let Value::Float64(f) = &b { kani::assume(!f.is_nan()); }
        if let Value::Float64(f) = &lit { kani::assume(!f.is_nan()); }
        if let Value::Float64(f) = &lit2 { kani::assume(!f.is_nan()); }
    }
    st.set(NodeId::new(1), key.clone(), clone_scalar(&a));
    st.set(NodeId::new(2), key.clone(), clone_scalar(&b));
    let (li, ui): (bool, bool) = (kani::any(), kani::any());
    let (lo_op, hi_op) = (if li { BinaryFilterOp::Ge } else { BinaryFilterOp::Gt }, if ui { BinaryFilterOp::Le } else { BinaryFilterOp::Lt });
    let (a_lo, a_hi, b_lo, b_hi) = (filter_true(p, &a, lo_op, &lit), filter_true(p, &a, hi_op, &lit2), filter_true(p, &b, lo_op, &lit), filter_true(p, &b, hi_op, &lit2));
    let both = (a_lo && a_hi) || (b_lo && b_hi);
    if both { assert!(st.might_match_range(&key, Some(&lit), Some(&lit2), li, ui), "range pruning says 'no match' although a stored value lies in the range"); }
    if a_lo || b_lo { assert!(st.might_match_range(&key, Some(&lit), None, li, ui), "lower-bound pruning says 'no match' although a stored value satisfies the bound"); }
    if a_hi || b_hi { assert!(st.might_match_range(&key, None, Some(&lit2), li, ui), "upper-bound pruning says 'no match' although a stored value satisfies the bound"); }
    assert!(st.might_match_range(&key, None, None, li, ui), "unbounded range pruned");
    std::mem::forget((st, key, a, b, lit, lit2));
    both
}

macro_rules! c10_update_h { ($name:ident, $kind:expr, $what:expr, $nanfree:expr) => {
    c10_h!($name, { let p = pred(); let m = prune_sound_after_update(&p, $kind, $what, $nanfree); kani::cover!(m); std::mem::forget(p); });
}; }

//@ property: C10
//@ tier: quick
//@ cap_s: 900
//@ mem_gb: 12
//@ stubs: parking_lot slow paths, alloc::fmt::format, RandomState::new, regex::Regex::new
//@ encodes: PropertyStorage::{set,might_match}, PropertyColumn::{set,update_zone_map_on_insert,might_match}, ZoneMapEntry::might_contain_*
//@ symbolic: three Int64 values and an Int64 literal (all i64); history set(n1,a); set(n2,b); set(n1,c) (overwrite)
//@ bound: one property column, two nodes, one overwrite after two inserts
//@ oracle: after the overwrite, a comparison the filter evaluates to true on a live value (b or c) is never pruned
c10_update_h!(c10_prune_after_overwrite_int, 2, 0, false);

//@ property: C10
//@ tier: quick
//@ cap_s: 900
//@ mem_gb: 12
//@ stubs: parking_lot slow paths, alloc::fmt::format, RandomState::new, regex::Regex::new
//@ encodes: PropertyStorage::{set,remove,might_match}, PropertyColumn::{set,remove,might_match} (stale-summary path)
//@ symbolic: two Int64 values and an Int64 literal; history set(n1,a); set(n2,b); remove(n1)
//@ bound: one property column, two nodes, one removal
//@ oracle: after the removal (summary stale), a comparison true on the remaining value is never pruned
c10_update_h!(c10_prune_after_remove_int, 2, 1, false);

//@ property: C10
//@ tier: quick
//@ cap_s: 900
//@ mem_gb: 12
//@ stubs: parking_lot slow paths, alloc::fmt::format, RandomState::new, regex::Regex::new
//@ encodes: PropertyStorage::{set,remove,rebuild_zone_maps,might_match}, PropertyColumn::{rebuild_zone_map,might_match}, ZoneMapEntry::might_contain_*
//@ symbolic: two Int64 values and an Int64 literal; history set(n1,a); set(n2,b); remove(n1); rebuild_zone_maps()
//@ bound: one property column, two nodes, one removal, one rebuild
//@ oracle: after removal and rebuild, a comparison true on the remaining value is never pruned
c10_update_h!(c10_prune_after_remove_rebuild_int, 2, 2, false);

//@ property: C10
//@ tier: quick
//@ cap_s: 900
//@ mem_gb: 12
//@ stubs: parking_lot slow paths, alloc::fmt::format, RandomState::new, regex::Regex::new
//@ encodes: PropertyStorage::{set,remove,might_match}, PropertyColumn::{set,remove,update_zone_map_on_insert,might_match} (a write on a column whose summary is stale)
//@ symbolic: three Int64 values and an Int64 literal; history set(n1,a); set(n2,b); remove(n1); set(n1,c)
//@ bound: one property column, two nodes, one removal followed by one insert
//@ oracle: after removal and re-insert, a comparison true on a live value (b or c) is never pruned
c10_update_h!(c10_prune_after_remove_then_insert_int, 2, 4, false);

//@ property: C10
//@ tier: quick
//@ cap_s: 900
//@ mem_gb: 12
//@ stubs: parking_lot slow paths, alloc::fmt::format, RandomState::new, regex::Regex::new
//@ encodes: PropertyStorage::{set,rebuild_zone_maps,might_match}, PropertyColumn::{set,rebuild_zone_map,might_match}
//@ symbolic: three Float64 values and a Float64 literal (all non-NaN doubles); history set(n1,a); set(n2,b); set(n1,c); rebuild_zone_maps()
//@ bound: one property column, two nodes, one overwrite, one rebuild
//@ oracle: after overwrite and rebuild, a comparison true on a live value is never pruned (float equality is |a-b| < EPSILON)
c10_update_h!(c10_prune_after_overwrite_rebuild_float, 3, 3, true);

//@ property: C10
//@ tier: quick
//@ cap_s: 900
//@ mem_gb: 12
//@ stubs: parking_lot slow paths, alloc::fmt::format, RandomState::new, regex::Regex::new
//@ encodes: PropertyStorage::might_match_range, ZoneMapEntry::{might_contain_range,might_contain_less_than,might_contain_greater_than}
//@ symbolic: two stored Int64 values, two Int64 bounds (all i64), inclusiveness of each bound
//@ bound: one property column, two nodes; two-sided, lower-only, upper-only and unbounded ranges
//@ oracle: a range (as the filter evaluates the two comparisons) that holds for a stored value is never pruned
c10_h!(c10_prune_range_int, { let p = pred(); let m = prune_range_sound(&p, 2, false); kani::cover!(m); std::mem::forget(p); });

//@ property: C10
//@ tier: quick
//@ cap_s: 900
//@ mem_gb: 12
//@ stubs: parking_lot slow paths, alloc::fmt::format, RandomState::new, regex::Regex::new
//@ encodes: as c10_prune_range_int
//@ symbolic: two stored Float64 values, two Float64 bounds (all non-NaN doubles), inclusiveness of each bound
//@ bound: one property column, two nodes
//@ oracle: as c10_prune_range_int
c10_h!(c10_prune_range_float, { let p = pred(); let m = prune_range_sound(&p, 3, true); kani::cover!(m); std::mem::forget(p); });

//@ property: C10
//@ tier: quick
//@ cap_s: 600
//@ mem_gb: 10
//@ expect: fail
//@ stubs: parking_lot slow paths, alloc::fmt::format, RandomState::new, regex::Regex::new
//@ encodes: PropertyStorage::{set,might_match}, ZoneMapEntry::might_contain_less_than, ExpressionPredicate::compare_values
//@ symbolic: nothing (the concrete witness of the open finding)
//@ bound: column {Int64(2^53+1), Float64(2^53)}, predicate k <= Int64(2^53)
//@ oracle: witness of the open known finding c10_mixed_column_beyond_2p53: asserts that pruning does not answer 'no match' (it does: min stays Int64(2^53+1) because the float compares equal to it in f64, and the Int64 probe is compared exactly)
c10_h!(kf_c10_mixed_column_beyond_2p53_still_fails, {
    let p = pred();
    let st: PropertyStorage<NodeId> = PropertyStorage::new();
    let key = PropertyKey::new("k");
    let big: i64 = (1 << 53) + 1;
    st.set(NodeId::new(1), key.clone(), Value::Int64(big));
    st.set(NodeId::new(2), key.clone(), Value::Float64(9007199254740992.0));
    let lit = Value::Int64(1 << 53);
    let matches = filter_true(&p, &Value::Float64(9007199254740992.0), BinaryFilterOp::Le, &lit);
    assert!(matches);
    kani::cover!(true);
    assert!(st.might_match(&key, CompareOp::Le, &lit), "pruning says 'no match' although the filter matches a stored value");
    std::mem::forget((st, key, p));
});
