//! C18 — exact nearest-neighbour search and the scalar distance kernels.
//! The cpuid-based SIMD dispatch is stubbed to "no AVX2, no SSE": only the scalar kernels are covered.
use grafeo_common::types::NodeId;
use grafeo_core::index::vector::BinaryQuantizer;
use grafeo_core::index::vector::{brute_force_knn, brute_force_knn_filtered, compute_distance, DistanceMetric};

fn no_simd() -> bool { false }
fn fin(bound: f32) -> f32 { let x: f32 = kani::any(); kani::assume(x.is_finite() && x >= -bound && x <= bound); x }

/// the plain definition of the two metrics decided here, dimension 1, evaluated independently of the code under test
fn def_dist(metric: DistanceMetric, q: f32, v: f32) -> f32 { match metric { DistanceMetric::Manhattan => 0.0f32 + (q - v).abs(), DistanceMetric::DotProduct => -(0.0f32 + q * v), _ => f32::NAN } }

macro_rules! knn_h {
    ($name:ident, $metric:expr, $unwind:expr) => {
        #[kani::proof]
        #[kani::unwind($unwind)]
        #[kani::stub(grafeo_core::index::vector::simd::has_avx2, no_simd)]
        #[kani::stub(grafeo_core::index::vector::simd::has_sse, no_simd)]
        fn $name() {
            let v = [[fin(1048576.0)], [fin(1048576.0)], [fin(1048576.0)]];
            let q = [fin(1048576.0)];
            let k: usize = kani::any(); kani::assume(k <= 4);
            let ids = [NodeId::new(1), NodeId::new(2), NodeId::new(3)];
            let items = [(ids[0], &v[0][..]), (ids[1], &v[1][..]), (ids[2], &v[2][..])];
            let res = brute_force_knn(items.iter().copied(), &q, k, $metric);
            let want = if k < 3 { k } else { 3 };
            assert!(res.len() == want, "wrong number of neighbours");
            let d = [def_dist($metric, q[0], v[0][0]), def_dist($metric, q[0], v[1][0]), def_dist($metric, q[0], v[2][0])];
            let mut used = [false; 3];
            let mut i = 0;
            while i < res.len() {
                let idx = (res[i].0.as_u64() - 1) as usize;
                assert!(idx < 3 && !used[idx], "an identifier is returned twice or is not in the index");
                used[idx] = true;
                assert!(res[i].1.to_bits() == d[idx].to_bits(), "a neighbour is paired with a distance that is not its true distance");
                if i > 0 { assert!(res[i - 1].1 <= res[i].1, "results are not sorted by increasing distance"); }
                i += 1;
            }
            if want > 0 && want < 3 {
                let last = res[want - 1].1;
                let mut j = 0; while j < 3 { if !used[j] { assert!(!(d[j] < last), "an omitted vector is strictly closer than a returned one"); } j += 1; }
            }
            kani::cover!(want == 2 && d[2] < d[0] && d[0] < d[1]);
            kani::cover!(want == 3 && d[0] == d[1]);
            std::mem::forget(res);
        }
    };
}
//@ property: C18
//@ tier: quick
//@ cap_s: 600
//@ mem_gb: 10
//@ unwind: 6
//@ stubs: simd::has_avx2 / has_sse -> false (scalar kernels only)
//@ encodes: brute_force_knn, compute_distance, simd::{compute_distance_simd,manhattan_distance_simd,manhattan_distance_scalar}, slice::sort_by
//@ symbolic: 3 one-dimensional vectors and the query (finite f32, |x| <= 2^20), k in 0..=4
//@ bound: n = 3, dim = 1, metric Manhattan
//@ oracle: at most k distinct ids from the index, each with its true distance (bitwise equal to the plain definition, computed independently of compute_distance), sorted ascending, min(k,n) of them, no omitted vector strictly closer than the last returned
knn_h!(c18_knn_exact_manhattan, DistanceMetric::Manhattan, 6);
// (no Euclidean/Cosine harness: CBMC models f32::sqrt as a nondeterministic function, two calls with the same
// argument may differ, so 'the reported distance is the true distance' produced a spurious counterexample)
//@ property: C18
//@ tier: thorough
//@ optional: yes
//@ cap_s: 900
//@ mem_gb: 12
//@ unwind: 6
//@ stubs: simd::has_avx2 / has_sse -> false (scalar kernels only)
//@ encodes: brute_force_knn, compute_distance, simd::{dot_product_simd,dot_product_scalar}
//@ symbolic: 3 one-dimensional vectors and the query (finite f32, |x| <= 2^20), k in 0..=4
//@ bound: n = 3, dim = 1, metric DotProduct (distance = -dot)
//@ oracle: as c18_knn_exact_manhattan
knn_h!(c18_knn_exact_dot, DistanceMetric::DotProduct, 6);

//@ property: C18
//@ tier: quick
//@ cap_s: 600
//@ stubs: simd::has_avx2 / has_sse -> false (scalar kernels only)
//@ encodes: compute_distance for Manhattan: simd::{manhattan_distance_simd,manhattan_distance_scalar}
//@ symbolic: two 2-dimensional vectors (finite f32, |x| <= 2^20)
//@ bound: dim = 2
//@ oracle: bit-exact agreement with sum |a_i - b_i| in index order; symmetry d(a,b) == d(b,a); d(a,a) == 0; non-negative
#[kani::proof]
#[kani::unwind(4)]
#[kani::stub(grafeo_core::index::vector::simd::has_avx2, no_simd)]
#[kani::stub(grafeo_core::index::vector::simd::has_sse, no_simd)]
fn c18_scalar_kernel_manhattan() {
    let a = [fin(1048576.0), fin(1048576.0)]; let b = [fin(1048576.0), fin(1048576.0)];
    let man = compute_distance(&a, &b, DistanceMetric::Manhattan);
    assert!(man.to_bits() == (0.0f32 + (a[0] - b[0]).abs() + (a[1] - b[1]).abs()).to_bits());
    assert!(man.to_bits() == compute_distance(&b, &a, DistanceMetric::Manhattan).to_bits());
    assert!(man >= 0.0);
    assert!(compute_distance(&a, &a, DistanceMetric::Manhattan) == 0.0);
    kani::cover!(man > 1.0);
}

//@ property: C18
//@ tier: thorough
//@ optional: yes
//@ cap_s: 600
//@ stubs: simd::has_avx2 / has_sse -> false (scalar kernels only)
//@ encodes: compute_distance for DotProduct: simd::{dot_product_simd,dot_product_scalar}
//@ symbolic: two 2-dimensional vectors (finite f32, |x| <= 2^20)
//@ bound: dim = 2
//@ oracle: bit-exact agreement with -(sum a_i * b_i) in index order; symmetry
#[kani::proof]
#[kani::unwind(4)]
#[kani::stub(grafeo_core::index::vector::simd::has_avx2, no_simd)]
#[kani::stub(grafeo_core::index::vector::simd::has_sse, no_simd)]
fn c18_scalar_kernel_dot() {
    let a = [fin(1048576.0), fin(1048576.0)]; let b = [fin(1048576.0), fin(1048576.0)];
    let dot = compute_distance(&a, &b, DistanceMetric::DotProduct);
    assert!(dot.to_bits() == (-(0.0f32 + a[0] * b[0] + a[1] * b[1])).to_bits());
    assert!(dot.to_bits() == compute_distance(&b, &a, DistanceMetric::DotProduct).to_bits());
    kani::cover!(dot > 1.0);
}

//@ property: C18
//@ tier: thorough
//@ optional: yes
//@ cap_s: 600
//@ mem_gb: 10
//@ stubs: simd::has_avx2 / has_sse -> false (scalar kernels only)
//@ encodes: brute_force_knn_filtered
//@ symbolic: 3 one-dimensional vectors, query, which single id the filter excludes ("removed" vector), k in 0..=3
//@ bound: n = 3, dim = 1, Manhattan
//@ oracle: an excluded (removed) identifier is never returned; min(k, 2) results
#[kani::proof]
#[kani::unwind(6)]
#[kani::stub(grafeo_core::index::vector::simd::has_avx2, no_simd)]
#[kani::stub(grafeo_core::index::vector::simd::has_sse, no_simd)]
fn c18_knn_filtered_never_returns_removed() {
    let v = [[fin(1024.0)], [fin(1024.0)], [fin(1024.0)]];
    let q = [fin(1024.0)];
    let k: usize = kani::any(); kani::assume(k <= 3);
    let removed: u64 = kani::any(); kani::assume(removed >= 1 && removed <= 3);
    let items = [(NodeId::new(1), &v[0][..]), (NodeId::new(2), &v[1][..]), (NodeId::new(3), &v[2][..])];
    let res = brute_force_knn_filtered(items.iter().copied(), &q, k, DistanceMetric::Manhattan, |id| id.as_u64() != removed);
    assert!(res.len() == if k < 2 { k } else { 2 });
    let mut i = 0; while i < res.len() { assert!(res[i].0.as_u64() != removed, "a removed vector was returned"); i += 1; }
    kani::cover!(res.len() == 2);
    std::mem::forget(res);
}

//@ property: C18
//@ tier: quick
//@ cap_s: 600
//@ stubs: simd::has_avx2 / has_sse -> false (scalar kernels only)
//@ encodes: compute_distance / compute_distance_simd for DotProduct and Manhattan, dimension 1
//@ symbolic: two one-dimensional vectors (finite f32, |x| <= 2^20), possibly equal
//@ bound: dim = 1
//@ oracle: bit-exact agreement with the plain definitions (-(a*b) and |a-b|), including the self-distance case a == b
#[kani::proof]
#[kani::unwind(3)]
#[kani::stub(grafeo_core::index::vector::simd::has_avx2, no_simd)]
#[kani::stub(grafeo_core::index::vector::simd::has_sse, no_simd)]
fn c18_distance_dim1_vs_definition() {
    let a = [fin(1048576.0)]; let b = [fin(1048576.0)];
    assert!(compute_distance(&a, &b, DistanceMetric::DotProduct).to_bits() == def_dist(DistanceMetric::DotProduct, a[0], b[0]).to_bits(), "dot-product distance differs from its definition");
    assert!(compute_distance(&a, &b, DistanceMetric::Manhattan).to_bits() == def_dist(DistanceMetric::Manhattan, a[0], b[0]).to_bits(), "Manhattan distance differs from its definition");
    kani::cover!(a[0] == b[0] && a[0] != 0.0);
    kani::cover!(a[0] != b[0]);
}

//@ property: C18
//@ tier: quick
//@ cap_s: 300
//@ encodes: BinaryQuantizer::{quantize,hamming_distance,words_needed}
//@ symbolic: two 3-dimensional vectors (every f32 bit pattern, NaN and -0.0 included)
//@ bound: dim = 3 (one word)
//@ oracle: bit i of the code is exactly (component i >= 0.0), no other bit is set; the Hamming distance equals the number of sign disagreements, is symmetric and zero on equal codes
#[kani::proof]
#[kani::unwind(5)]
fn c18_binary_quantizer_sign_bits_and_hamming() {
    let a: [f32; 3] = [f32::from_bits(kani::any()), f32::from_bits(kani::any()), f32::from_bits(kani::any())];
    let b: [f32; 3] = [f32::from_bits(kani::any()), f32::from_bits(kani::any()), f32::from_bits(kani::any())];
    let (qa, qb) = (BinaryQuantizer::quantize(&a), BinaryQuantizer::quantize(&b));
    assert!(qa.len() == 1 && qb.len() == 1 && BinaryQuantizer::words_needed(3) == 1);
    let mut i = 0;
    while i < 3 { assert!(((qa[0] >> i) & 1 == 1) == (a[i] >= 0.0), "bit is not the sign of the component"); i += 1; }
    assert!(qa[0] >> 3 == 0);
    let mut diff = 0u32; let mut i = 0;
    while i < 3 { if (a[i] >= 0.0) != (b[i] >= 0.0) { diff += 1; } i += 1; }
    assert!(BinaryQuantizer::hamming_distance(&qa, &qb) == diff, "Hamming distance is not the number of sign disagreements");
    assert!(BinaryQuantizer::hamming_distance(&qa, &qb) == BinaryQuantizer::hamming_distance(&qb, &qa));
    assert!(BinaryQuantizer::hamming_distance(&qa, &qa) == 0);
    kani::cover!(diff == 3);
    kani::cover!(diff == 0 && a[0].is_nan());
    std::mem::forget((qa, qb));
}

