//! C01 (kernel K1) — the visibility predicate and the version chain, against the declarative rule.
use grafeo_common::mvcc::{VersionChain, VersionInfo};
use grafeo_common::types::{EpochId, TxId};

fn spec_visible_at(created: u64, deleted: Option<u64>, e: u64) -> bool { created <= e && match deleted { None => true, Some(d) => d > e } }

//@ property: C01
//@ tier: quick
//@ cap_s: 120
//@ encodes: VersionInfo::{new,mark_deleted,is_visible_at,is_visible_to}, EpochId::is_visible_at
//@ symbolic: created epoch, optional deleted epoch, creator tx, viewing epoch, viewing tx (all u64)
//@ bound: none (loop free): all values
//@ oracle: visible_at == created <= e && (deleted == None || deleted > e); visible_to == own-and-not-deleted, else visible_at
#[kani::proof]
#[kani::unwind(2)]
fn c01_visibility_predicate() {
    let (c, e, by, tx): (u64, u64, u64, u64) = (kani::any(), kani::any(), kani::any(), kani::any());
    let del: Option<u64> = if kani::any() { Some(kani::any()) } else { None };
    let mut vi = VersionInfo::new(EpochId::new(c), TxId::new(by));
    if let Some(d) = del { vi.mark_deleted(EpochId::new(d)); }
    assert!(vi.is_visible_at(EpochId::new(e)) == spec_visible_at(c, del, e));
    let want = if by == tx { del.is_none() } else { spec_visible_at(c, del, e) };
    assert!(vi.is_visible_to(EpochId::new(e), TxId::new(tx)) == want);
    kani::cover!(by != tx && del.is_some() && want);
    kani::cover!(by == tx && c > e && want);
}

/// model of a chain of up to 3 versions, newest first
#[derive(Clone, Copy)]
struct MV { c: u64, d: Option<u64>, by: u64, data: u8 }

fn model_visible_to(m: &[Option<MV>; 3], e: u64, tx: u64) -> Option<u8> {
    let mut i = 0;
    while i < 3 {
        if let Some(v) = m[i] {
            let vis = if v.by == tx { v.d.is_none() } else { spec_visible_at(v.c, v.d, e) };
            if vis { return Some(v.data); }
        }
        i += 1;
    }
    None
}

//@ property: C01
//@ tier: quick
//@ cap_s: 400
//@ mem_gb: 10
//@ encodes: VersionChain::{new,add_version,mark_deleted,visible_at,visible_to,modified_by,remove_versions_by,version_count}
//@ symbolic: 3 versions (created epoch, creator, payload all symbolic), an optional delete with symbolic epoch, viewer epoch and tx, the tx whose versions are rolled back
//@ bound: chains of exactly 3 versions (VecDeque of u8 payloads)
//@ oracle: visible_to/visible_at return the newest version satisfying the declarative rule; after remove_versions_by(tx) no version of tx is visible to anyone and every other viewer's answer is the model's answer on the filtered chain
#[kani::proof]
#[kani::unwind(5)]
fn c01_version_chain_3() {
    let mut ch: VersionChain<u8> = VersionChain::new();
    let mut m: [Option<MV>; 3] = [None; 3];
    // three add_version calls (newest first in the model)
    let v0 = MV { c: kani::any(), d: None, by: kani::any(), data: 0 };
    let v1 = MV { c: kani::any(), d: None, by: kani::any(), data: 1 };
    let v2 = MV { c: kani::any(), d: None, by: kani::any(), data: 2 };
    ch.add_version(v0.data, EpochId::new(v0.c), TxId::new(v0.by));
    ch.add_version(v1.data, EpochId::new(v1.c), TxId::new(v1.by));
    ch.add_version(v2.data, EpochId::new(v2.c), TxId::new(v2.by));
    m[0] = Some(v2); m[1] = Some(v1); m[2] = Some(v0);
    // mark_deleted marks the newest not-yet-deleted version
    let del: bool = kani::any();
    if del { let d: u64 = kani::any(); assert!(ch.mark_deleted(EpochId::new(d))); if let Some(v) = &mut m[0] { v.d = Some(d); } }
    let (e, tx): (u64, u64) = (kani::any(), kani::any());
    assert!(ch.visible_to(EpochId::new(e), TxId::new(tx)).copied() == model_visible_to(&m, e, tx));
    // visible_at == visible_to for a tx that created nothing
    let other: u64 = kani::any();
    kani::assume(other != v0.by && other != v1.by && other != v2.by);
    assert!(ch.visible_at(EpochId::new(e)).copied() == model_visible_to(&m, e, other));
    // rollback of one creator
    let rb: u64 = kani::any();
    assert!(ch.modified_by(TxId::new(rb)) == (v0.by == rb || v1.by == rb || v2.by == rb));
    ch.remove_versions_by(TxId::new(rb));
    let mut f: [Option<MV>; 3] = [None; 3];
    let mut k = 0; let mut i = 0;
    while i < 3 { if let Some(v) = m[i] { if v.by != rb { f[k] = Some(v); k += 1; } } i += 1; }
    assert!(ch.version_count() == k);
    assert!(!ch.modified_by(TxId::new(rb)));
    assert!(ch.visible_to(EpochId::new(e), TxId::new(tx)).copied() == model_visible_to(&f, e, tx));
    kani::cover!(k == 1 && del);
    kani::cover!(k == 3 && model_visible_to(&f, e, tx) == Some(1));
    std::mem::forget(ch);
}

//@ property: C01
//@ tier: quick
//@ cap_s: 400
//@ mem_gb: 10
//@ encodes: VersionChain::{add_version,gc,visible_at,version_count}
//@ symbolic: 3 versions with symbolic non-decreasing created epochs (as a history produces them), gc horizon, viewer epoch >= horizon
//@ bound: chains of exactly 3 live (undeleted) versions
//@ oracle: gc(min) never changes what any viewer at an epoch >= min sees
#[kani::proof]
#[kani::unwind(5)]
fn c01_version_chain_gc_preserves_views() {
    let mut ch: VersionChain<u8> = VersionChain::new();
    let c: [u64; 3] = kani::any();
    kani::assume(c[0] <= c[1] && c[1] <= c[2]);
    ch.add_version(0, EpochId::new(c[0]), TxId::new(2));
    ch.add_version(1, EpochId::new(c[1]), TxId::new(3));
    ch.add_version(2, EpochId::new(c[2]), TxId::new(4));
    let (min, e): (u64, u64) = (kani::any(), kani::any());
    kani::assume(e >= min);
    let before = ch.visible_at(EpochId::new(e)).copied();
    ch.gc(EpochId::new(min));
    let after = ch.visible_at(EpochId::new(e)).copied();
    assert!(before == after);
    kani::cover!(ch.version_count() == 1);
    kani::cover!(ch.version_count() == 3);
    std::mem::forget(ch);
}

//@ property: C02
//@ tier: quick
//@ cap_s: 400
//@ mem_gb: 10
//@ encodes: VersionChain::{add_version,mark_deleted,remove_versions_by,visible_to,visible_at,modified_by,version_count,is_empty}
//@ symbolic: a committed base version and two versions written by the rolled-back transaction (epochs, creators, payloads symbolic), viewer epoch and transaction
//@ bound: version chain kernel of rollback: chains of 3 versions
//@ oracle: all-or-nothing at the chain level: after remove_versions_by(tx) NONE of tx's versions is visible to anyone (including tx itself), and what every viewer sees is exactly what it saw of the other creators' versions before
#[kani::proof]
#[kani::unwind(5)]
fn c02_chain_rollback_is_all_or_nothing() {
    let mut ch: VersionChain<u8> = VersionChain::new();
    let (base_c, base_by): (u64, u64) = (kani::any(), kani::any());
    let tx: u64 = kani::any();
    kani::assume(base_by != tx);
    let (c1, c2): (u64, u64) = (kani::any(), kani::any());
    ch.add_version(0, EpochId::new(base_c), TxId::new(base_by));
    ch.add_version(1, EpochId::new(c1), TxId::new(tx));
    ch.add_version(2, EpochId::new(c2), TxId::new(tx));
    let (e, viewer): (u64, u64) = (kani::any(), kani::any());
    // what the viewer would see if tx had never written: the base version alone
    let base_only = if base_by == viewer { true } else { base_c <= e };
    ch.remove_versions_by(TxId::new(tx));
    assert!(!ch.modified_by(TxId::new(tx)));
    assert!(ch.version_count() == 1);
    let got = ch.visible_to(EpochId::new(e), TxId::new(viewer)).copied();
    assert!(got == if base_only { Some(0) } else { None }, "after rollback a viewer sees something other than the pre-transaction state");
    assert!(got != Some(1) && got != Some(2));
    kani::cover!(got == Some(0) && viewer == tx);
    kani::cover!(got.is_none());
    std::mem::forget(ch);
}

//@ property: C01
//@ tier: quick
//@ cap_s: 400
//@ encodes: VersionChain::{add_version,has_conflict,get_mut,visible_to,version_count}
//@ symbolic: two versions (epochs, creators), our start epoch and transaction, the reading epoch, the epoch of the modification
//@ bound: chains of 2 versions
//@ oracle: has_conflict == another transaction created a version after our start; get_mut modifies our own visible version in place and otherwise copies the visible version into a new one of ours (copy-on-write), after which we read our own copy; an invisible entity cannot be modified
#[kani::proof]
#[kani::unwind(5)]
fn c01_chain_get_mut_and_conflict() {
    let mut ch: VersionChain<u8> = VersionChain::new();
    let (c0, by0, c1, by1): (u64, u64, u64, u64) = (kani::any(), kani::any(), kani::any(), kani::any());
    ch.add_version(0, EpochId::new(c0), TxId::new(by0));
    ch.add_version(1, EpochId::new(c1), TxId::new(by1));
    // has_conflict: another transaction created a version after our start
    let (start, me): (u64, u64) = (kani::any(), kani::any());
    let want_conflict = (by0 != me && c0 > start) || (by1 != me && c1 > start);
    assert!(ch.has_conflict(EpochId::new(start), TxId::new(me)) == want_conflict);
    // get_mut: copy-on-write for a version of another transaction, in place for our own
    let (e, m): (u64, u64) = (kani::any(), kani::any());
    let vis1 = if by1 == me { true } else { c1 <= e };
    let vis0 = if by0 == me { true } else { c0 <= e };
    let before = ch.version_count();
    let got = ch.get_mut(EpochId::new(e), TxId::new(me), EpochId::new(m)).map(|r| *r);
    if vis1 { assert!(got == Some(1)); assert!(ch.version_count() == if by1 == me { before } else { before + 1 }); }
    else if vis0 { assert!(got == Some(0)); assert!(ch.version_count() == if by0 == me { before } else { before + 1 }); }
    else { assert!(got.is_none() && ch.version_count() == before); }
    // after a copy-on-write the writer sees its own copy, whatever the epochs
    if got.is_some() { assert!(ch.visible_to(EpochId::new(e), TxId::new(me)).copied() == got); }
    kani::cover!(vis1 && by1 != me);
    kani::cover!(!vis1 && vis0 && by0 == me);
    std::mem::forget(ch);
}

//@ property: C01
//@ tier: quick
//@ cap_s: 300
//@ mem_gb: 8
//@ encodes: VersionChain::{with_initial,mark_deleted,visible_at,visible_to,version_count}, VersionInfo::mark_deleted
//@ symbolic: created epoch and creator of the single version, the epochs of a first and of a second (stale or later) delete, viewer epoch and tx
//@ bound: chains of exactly 1 version (what the store keeps per node / edge), two mark_deleted calls
//@ oracle: the first delete succeeds; a second delete of the already deleted entity reports false and changes no viewer's answer (a stale writer cannot rewrite the deletion epoch a reader's snapshot depends on)
#[kani::proof]
#[kani::unwind(4)]
fn c01_chain_second_delete_changes_no_view() {
    let (c, by, d1, d2, e, tx): (u64, u64, u64, u64, u64, u64) = (kani::any(), kani::any(), kani::any(), kani::any(), kani::any(), kani::any());
    let mut ch: VersionChain<u8> = VersionChain::with_initial(7, EpochId::new(c), TxId::new(by));
    assert!(ch.mark_deleted(EpochId::new(d1)));
    let before_at = ch.visible_at(EpochId::new(e)).copied();
    let before_to = ch.visible_to(EpochId::new(e), TxId::new(tx)).copied();
    assert!(before_at == if spec_visible_at(c, Some(d1), e) { Some(7) } else { None });
    let again = ch.mark_deleted(EpochId::new(d2));
    assert!(!again, "deleting an already deleted single-version entity reported success");
    assert!(ch.visible_at(EpochId::new(e)).copied() == before_at, "a second delete changed what a snapshot sees");
    assert!(ch.visible_to(EpochId::new(e), TxId::new(tx)).copied() == before_to, "a second delete changed what a transaction sees");
    assert!(ch.version_count() == 1);
    kani::cover!(before_at.is_some() && d2 <= e);
    std::mem::forget(ch);
}
