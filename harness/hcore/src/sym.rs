//! Symbolic generators.
use grafeo_common::types::{Timestamp, Value};

/// A recording hasher: stores the exact stream `Hash::hash` emits (up to N words).
/// Equal streams imply equal hashes under every `Hasher`.
pub struct Rec { pub w: [u64; 8], pub n: usize, pub overflow: bool }
impl Rec { pub fn new() -> Self { Rec { w: [0; 8], n: 0, overflow: false } }
    fn push(&mut self, tag: u64, v: u64) { if self.n + 2 <= 8 { self.w[self.n] = tag; self.w[self.n + 1] = v; self.n += 2; } else { self.overflow = true; } }
    pub fn same(&self, o: &Rec) -> bool { !self.overflow && !o.overflow && self.n == o.n && self.w[0] == o.w[0] && self.w[1] == o.w[1] && self.w[2] == o.w[2] && self.w[3] == o.w[3] && self.w[4] == o.w[4] && self.w[5] == o.w[5] && self.w[6] == o.w[6] && self.w[7] == o.w[7] }
}
impl std::hash::Hasher for Rec {
    fn finish(&self) -> u64 { 0 }
    fn write(&mut self, b: &[u8]) { let mut i = 0; while i < b.len() { self.push(9, b[i] as u64); i += 1; } self.push(10, b.len() as u64); }
    fn write_u8(&mut self, i: u8) { self.push(1, i as u64) }
    fn write_u16(&mut self, i: u16) { self.push(2, i as u64) }
    fn write_u32(&mut self, i: u32) { self.push(3, i as u64) }
    fn write_u64(&mut self, i: u64) { self.push(4, i) }
    fn write_usize(&mut self, i: usize) { self.push(5, i as u64) }
    fn write_i64(&mut self, i: i64) { self.push(6, i as u64) }
    fn write_isize(&mut self, i: isize) { self.push(7, i as u64) }
    fn write_i32(&mut self, i: i32) { self.push(8, i as u64) }
}
pub fn stream<T: std::hash::Hash>(t: &T) -> Rec { let mut r = Rec::new(); t.hash(&mut r); r }

/// Wider recording hasher (8 writes = 16 words) for lists / vectors; loop-free comparison.
pub struct Rec16 { pub w: [u64; 16], pub n: usize }
impl Rec16 { pub fn new() -> Self { Rec16 { w: [0; 16], n: 0 } }
    fn push(&mut self, tag: u64, v: u64) { if self.n + 2 <= 16 { self.w[self.n] = tag; self.w[self.n + 1] = v; self.n += 2; } else { panic!("Rec16 overflow"); } }
    pub fn same(&self, o: &Rec16) -> bool {
        let (a, b) = (&self.w, &o.w);
        self.n == o.n && a[0] == b[0] && a[1] == b[1] && a[2] == b[2] && a[3] == b[3] && a[4] == b[4] && a[5] == b[5] && a[6] == b[6] && a[7] == b[7]
            && a[8] == b[8] && a[9] == b[9] && a[10] == b[10] && a[11] == b[11] && a[12] == b[12] && a[13] == b[13] && a[14] == b[14] && a[15] == b[15]
    }
}
impl std::hash::Hasher for Rec16 {
    fn finish(&self) -> u64 { 0 }
    fn write(&mut self, b: &[u8]) { let mut i = 0; while i < b.len() { self.push(9, b[i] as u64); i += 1; } self.push(10, b.len() as u64); }
    fn write_u8(&mut self, i: u8) { self.push(1, i as u64) }
    fn write_u32(&mut self, i: u32) { self.push(3, i as u64) }
    fn write_u64(&mut self, i: u64) { self.push(4, i) }
    fn write_usize(&mut self, i: usize) { self.push(5, i as u64) }
    fn write_i64(&mut self, i: i64) { self.push(6, i as u64) }
    fn write_isize(&mut self, i: isize) { self.push(7, i as u64) }
}
