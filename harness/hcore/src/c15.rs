//! C15 — every compression codec is lossless. Lengths and bit widths are concrete per query
//! (unrolled by macro), the data is symbolic.
use grafeo_core::storage::{BitPackedInts, BitVector, DeltaBitPacked, DeltaEncoding, RunLengthEncoding, SignedRunLengthEncoding};
use grafeo_core::storage::delta as d;
use grafeo_core::storage::runlength as rl;

fn eq_u64(v: &[u64], w: &[u64]) -> bool { let mut ok = v.len() == w.len(); let mut i = 0; while i < w.len() { if i < v.len() && v[i] != w[i] { ok = false; } i += 1; } ok }
fn eq_i64(v: &[i64], w: &[i64]) -> bool { let mut ok = v.len() == w.len(); let mut i = 0; while i < w.len() { if i < v.len() && v[i] != w[i] { ok = false; } i += 1; } ok }

//@ property: C15
//@ tier: quick
//@ cap_s: 120
//@ encodes: storage::delta::{zigzag_encode,zigzag_decode}, storage::runlength::{zigzag_encode,zigzag_decode}
//@ symbolic: one i64 and one u64 (all values)
//@ bound: no loops; all 64-bit values
//@ oracle: decode(encode(x)) == x and encode(decode(u)) == u for both copies; the two copies agree; small magnitudes map to small codes
#[kani::proof]
#[kani::unwind(2)]
fn c15_zigzag() {
    let x: i64 = kani::any(); let u: u64 = kani::any();
    assert!(d::zigzag_decode(d::zigzag_encode(x)) == x);
    assert!(d::zigzag_encode(d::zigzag_decode(u)) == u);
    assert!(rl::zigzag_decode(rl::zigzag_encode(x)) == x);
    assert!(rl::zigzag_encode(rl::zigzag_decode(u)) == u);
    assert!(rl::zigzag_encode(x) == d::zigzag_encode(x));
    if x >= 0 && x < (1 << 62) { assert!(d::zigzag_encode(x) == 2 * (x as u64)); }
    kani::cover!(x == i64::MIN);
}

macro_rules! delta_signed { ($name:ident, $n:expr) => {
    #[kani::proof]
    #[kani::unwind(6)]
    fn $name() {
        let v: [i64; $n] = kani::any();
        let e = DeltaEncoding::encode_signed(&v);
        assert!(e.len() == $n);
        let back = e.decode_signed();
        assert!(eq_i64(&back, &v));
        let b = DeltaEncoding::from_bytes(&e.to_bytes()).unwrap();
        assert!(eq_i64(&b.decode_signed(), &v));
        kani::cover!($n == 0 || v[0] == i64::MIN);
        std::mem::forget((e, back, b));
    }
} }
//@ property: C15
//@ tier: quick
//@ cap_s: 300
//@ unwind: 6
//@ encodes: DeltaEncoding::{encode_signed,decode_signed,len,to_bytes,from_bytes}, zigzag_*
//@ symbolic: 1 i64 (all values)
//@ bound: sequence length exactly 1
//@ oracle: decode_signed(encode_signed(v)) == v, also through to_bytes/from_bytes; no overflow panic
delta_signed!(c15_delta_signed_n1, 1);
//@ property: C15
//@ tier: quick
//@ cap_s: 300
//@ unwind: 6
//@ encodes: DeltaEncoding::{encode_signed,decode_signed,len,to_bytes,from_bytes}, zigzag_*
//@ symbolic: 2 i64 (all values)
//@ bound: sequence length exactly 2
//@ oracle: decode_signed(encode_signed(v)) == v, also through to_bytes/from_bytes; no overflow panic (i64::MIN/MAX neighbours)
delta_signed!(c15_delta_signed_n2, 2);
//@ property: C15
//@ tier: quick
//@ cap_s: 600
//@ mem_gb: 12
//@ unwind: 6
//@ encodes: DeltaEncoding::{encode_signed,decode_signed,len,to_bytes,from_bytes}, zigzag_*
//@ symbolic: 3 i64 (all values)
//@ bound: sequence length exactly 3
//@ oracle: decode_signed(encode_signed(v)) == v, also through to_bytes/from_bytes
delta_signed!(c15_delta_signed_n3, 3);

macro_rules! delta_unsigned { ($name:ident, $n:expr) => {
    #[kani::proof]
    #[kani::unwind(6)]
    fn $name() {
        let v: [u64; $n] = kani::any();
        let mut i = 1; while i < $n { kani::assume(v[i - 1] <= v[i]); i += 1; }   // documented precondition: sorted
        let e = DeltaEncoding::encode(&v);
        assert!(e.len() == $n && e.is_empty() == ($n == 0));
        let back = e.decode();
        assert!(eq_u64(&back, &v));
        let b = DeltaEncoding::from_bytes(&e.to_bytes()).unwrap();
        assert!(eq_u64(&b.decode(), &v));
        let p = DeltaBitPacked::encode(&v);
        assert!(p.len() == $n);
        assert!(eq_u64(&p.decode(), &v));
        kani::cover!($n > 0 && v[$n - 1] == u64::MAX);
        kani::cover!($n > 0 && v[$n - 1] == 0);
        std::mem::forget((e, back, b, p));
    }
} }
//@ property: C15
//@ tier: quick
//@ cap_s: 300
//@ unwind: 6
//@ encodes: DeltaEncoding::{encode,decode,len,to_bytes,from_bytes}, DeltaBitPacked::{encode,decode,len,is_empty}, BitPackedInts::{pack,pack_with_bits,unpack}
//@ symbolic: 1 u64 (all values; the [0] case included)
//@ bound: sorted sequence of length exactly 1
//@ oracle: decode(encode(v)) == v for both codecs, len agrees, bytes round trip
delta_unsigned!(c15_delta_unsigned_n1, 1);
//@ property: C15
//@ tier: quick
//@ cap_s: 300
//@ unwind: 6
//@ encodes: DeltaEncoding::{encode,decode,len,to_bytes,from_bytes}, DeltaBitPacked::{encode,decode,len}, BitPackedInts::{pack,pack_with_bits,unpack,bits_needed}
//@ symbolic: 2 u64 sorted (all values) — bit width of the delta is data dependent
//@ bound: sorted sequence of length exactly 2
//@ oracle: decode(encode(v)) == v for both codecs, len agrees, bytes round trip
delta_unsigned!(c15_delta_unsigned_n2, 2);

macro_rules! dbp_bytes { ($name:ident, $n:expr) => {
    #[kani::proof]
    #[kani::unwind(20)]
    fn $name() {
        let v: [u64; $n] = kani::any();
        let mut i = 1; while i < $n { kani::assume(v[i - 1] <= v[i]); i += 1; }
        let p = DeltaBitPacked::encode(&v);
        let bytes = p.to_bytes();
        let q = DeltaBitPacked::from_bytes(&bytes).unwrap();
        assert!(q.len() == $n && q.is_empty() == ($n == 0), "length changed by the byte round trip");
        assert!(q.base() == p.base() && q.bits_per_delta() == p.bits_per_delta(), "header changed by the byte round trip");
        assert!(eq_u64(&q.decode(), &v), "decode after the byte round trip differs from the input");
        kani::cover!($n == 0 || v[0] == 0);
        std::mem::forget((p, bytes, q));
    }
} }
//@ property: C15
//@ tier: quick
//@ cap_s: 300
//@ unwind: 20
//@ encodes: DeltaBitPacked::{encode,to_bytes,from_bytes,len,is_empty,base,bits_per_delta,decode}, BitPackedInts::{pack,to_bytes,from_bytes}
//@ symbolic: nothing (the empty sequence)
//@ bound: n = 0
//@ oracle: serialising the encoded block to bytes and back changes nothing (length, emptiness, header, decoded sequence)
dbp_bytes!(c15_deltabitpacked_bytes_n0, 0);
//@ property: C15
//@ tier: quick
//@ cap_s: 300
//@ unwind: 20
//@ encodes: DeltaBitPacked::{encode,to_bytes,from_bytes,len,is_empty,base,bits_per_delta,decode}, BitPackedInts::{pack,to_bytes,from_bytes}
//@ symbolic: 1 u64 (all values; the sequence [0], whose only difference from [] is the bit width of its empty delta block, included)
//@ bound: n = 1 (n = 2 exhausted 20 GB: the delta width becomes a symbolic divisor in from_bytes)
//@ oracle: serialising the encoded block to bytes and back changes nothing (length, emptiness, header, decoded sequence)
dbp_bytes!(c15_deltabitpacked_bytes_n1, 1);

//@ property: C15
//@ tier: quick
//@ cap_s: 120
//@ encodes: DeltaEncoding::{encode,decode,len}, DeltaBitPacked::{encode,decode,len,is_empty}, BitPackedInts::pack
//@ symbolic: nothing (empty input)
//@ bound: the empty sequence
//@ oracle: empty in, empty out, len 0
#[kani::proof]
#[kani::unwind(3)]
fn c15_delta_empty() {
    let e = DeltaEncoding::encode(&[]); assert!(e.len() == 0 && e.decode().is_empty());
    let s = DeltaEncoding::encode_signed(&[]); assert!(s.len() == 0 && s.decode_signed().is_empty());
    let p = DeltaBitPacked::encode(&[]); assert!(p.len() == 0 && p.is_empty() && p.decode().is_empty());
    let b = BitPackedInts::pack(&[]); assert!(b.len() == 0 && b.unpack().is_empty() && b.get(0).is_none());
    kani::cover!(true);
}

//@ property: C15
//@ tier: quick
//@ cap_s: 120
//@ encodes: BitPackedInts::bits_needed
//@ symbolic: one u64
//@ bound: all values
//@ oracle: 1 <= bits <= 64 and v < 2^bits (or bits == 64) and bits is minimal
#[kani::proof]
#[kani::unwind(2)]
fn c15_bits_needed() {
    let v: u64 = kani::any();
    let b = BitPackedInts::bits_needed(v);
    assert!(b >= 1 && b <= 64);
    if b < 64 { assert!(v < (1u64 << b)); }
    if b > 1 { assert!(v >= (1u64 << (b - 1))); }
    kani::cover!(b == 64); kani::cover!(b == 1 && v == 0);
}

/// one concrete bit width W, n around the values-per-word boundary
macro_rules! bitpack_w { ($name:ident, $w:expr, $n:expr) => {
    #[kani::proof]
    #[kani::unwind(12)]
    fn $name() {
        const W: u8 = $w; const N: usize = $n;
        let v: [u64; N] = kani::any();
        let mut i = 0; while i < N { if W < 64 { kani::assume(v[i] < (1u64 << W)); } i += 1; }
        let p = BitPackedInts::pack_with_bits(&v, W);
        assert!(p.len() == N && p.bits_per_value() == W);
        let u = p.unpack();
        assert!(eq_u64(&u, &v));
        let k: usize = kani::any(); kani::assume(k <= N);
        if k < N { assert!(p.get(k) == Some(v[k])); } else { assert!(p.get(k).is_none()); }
        let q = BitPackedInts::from_bytes(&p.to_bytes()).unwrap();
        assert!(q.len() == N && eq_u64(&q.unpack(), &v));
        kani::cover!(N > 0 && v[N - 1] == (if W < 64 { (1u64 << W) - 1 } else { u64::MAX }));
        std::mem::forget((p, u, q));
    }
} }
macro_rules! bitpack_meta { () => {} }
//@ property: C15
//@ tier: quick
//@ cap_s: 300
//@ unwind: 12
//@ encodes: BitPackedInts::{pack_with_bits,unpack,get,len,to_bytes,from_bytes}
//@ symbolic: 9 values < 2^7 (9 values per word at width 7: crosses the word boundary at index 9), symbolic probe index
//@ bound: width 7, n = 10
//@ oracle: unpack == input, get(i) == input[i], get(n) == None, bytes round trip
bitpack_w!(c15_bitpack_w7, 7, 10);
//@ property: C15
//@ tier: quick
//@ cap_s: 300
//@ unwind: 12
//@ encodes: BitPackedInts::{pack_with_bits,unpack,get,len,to_bytes,from_bytes}
//@ symbolic: 3 values < 2^1
//@ bound: width 1, n = 3 (n = 65 crossing the word boundary is in the thorough tier)
//@ oracle: unpack == input, get(i) == input[i], bytes round trip
bitpack_w!(c15_bitpack_w1, 1, 3);
//@ property: C15
//@ tier: quick
//@ cap_s: 300
//@ unwind: 12
//@ encodes: BitPackedInts::{pack_with_bits,unpack,get,len,to_bytes,from_bytes}
//@ symbolic: 3 values < 2^32 (2 per word)
//@ bound: width 32, n = 3
//@ oracle: unpack == input, get(i) == input[i], bytes round trip
bitpack_w!(c15_bitpack_w32, 32, 3);
//@ property: C15
//@ tier: quick
//@ cap_s: 300
//@ unwind: 12
//@ encodes: BitPackedInts::{pack_with_bits,unpack,get,len,to_bytes,from_bytes}
//@ symbolic: 2 values < 2^33 (1 per word, 31 bits wasted)
//@ bound: width 33, n = 2
//@ oracle: unpack == input, get(i) == input[i], bytes round trip
bitpack_w!(c15_bitpack_w33, 33, 2);
//@ property: C15
//@ tier: quick
//@ cap_s: 300
//@ unwind: 12
//@ encodes: BitPackedInts::{pack_with_bits,unpack,get,len,to_bytes,from_bytes}
//@ symbolic: 2 values < 2^63
//@ bound: width 63, n = 2
//@ oracle: unpack == input, get(i) == input[i], bytes round trip
bitpack_w!(c15_bitpack_w63, 63, 2);
//@ property: C15
//@ tier: quick
//@ cap_s: 300
//@ unwind: 12
//@ encodes: BitPackedInts::{pack_with_bits,unpack,get,len,to_bytes,from_bytes}
//@ symbolic: 2 arbitrary u64
//@ bound: width 64, n = 2
//@ oracle: unpack == input, get(i) == input[i], bytes round trip
bitpack_w!(c15_bitpack_w64, 64, 2);
//@ property: C15
//@ tier: quick
//@ cap_s: 300
//@ unwind: 12
//@ encodes: BitPackedInts::{pack_with_bits,unpack,get,len,to_bytes,from_bytes}
//@ symbolic: 5 values < 2^16 (4 per word)
//@ bound: width 16, n = 5
//@ oracle: unpack == input, get(i) == input[i], bytes round trip
bitpack_w!(c15_bitpack_w16, 16, 5);
//@ property: C15
//@ tier: quick
//@ cap_s: 300
//@ unwind: 12
//@ encodes: BitPackedInts::{pack_with_bits,unpack,get,len,to_bytes,from_bytes}
//@ symbolic: 4 values < 2^21 (3 per word, 1 bit wasted)
//@ bound: width 21, n = 4
//@ oracle: unpack == input, get(i) == input[i], bytes round trip
bitpack_w!(c15_bitpack_w21, 21, 4);

fn rle_input<const N: usize>() -> [u64; N] {
    let alpha: [u64; 2] = kani::any();
    let pick: [bool; N] = kani::any();
    let mut v = [0u64; N];
    let mut i = 0; while i < N { v[i] = if pick[i] { alpha[0] } else { alpha[1] }; i += 1; }
    v
}
macro_rules! rle_decode { ($name:ident, $n:expr, $u:expr) => {
    #[kani::proof]
    #[kani::unwind($u)]
    fn $name() {
        const N: usize = $n;
        let v = rle_input::<N>();
        let e = RunLengthEncoding::encode(&v);
        assert!(e.total_count() == N);
        let dcd = e.decode();
        assert!(eq_u64(&dcd, &v));
        kani::cover!(e.run_count() == N);
        kani::cover!(e.run_count() == 1 && N > 1);
        std::mem::forget((e, dcd));
    }
} }
macro_rules! rle_access { ($name:ident, $n:expr, $u:expr) => {
    #[kani::proof]
    #[kani::unwind($u)]
    fn $name() {
        const N: usize = $n;
        let v = rle_input::<N>();
        let e = RunLengthEncoding::encode(&v);
        let k: usize = kani::any(); kani::assume(k <= N);
        if k < N { assert!(e.get(k) == Some(v[k])); } else { assert!(e.get(k).is_none()); }
        let mut it = e.iter(); let mut j = 0;
        while j < N { assert!(it.next() == Some(v[j])); j += 1; }
        assert!(it.next().is_none());
        kani::cover!(e.run_count() == 2);
        std::mem::forget(e);
    }
} }
macro_rules! rle_bytes { ($name:ident, $n:expr, $u:expr) => {
    #[kani::proof]
    #[kani::unwind($u)]
    fn $name() {
        const N: usize = $n;
        let v = rle_input::<N>();
        let e = RunLengthEncoding::encode(&v);
        let b = RunLengthEncoding::from_bytes(&e.to_bytes()).unwrap();
        assert!(b.total_count() == N && b.run_count() == e.run_count());
        let mut j = 0; while j < N { assert!(b.get(j) == Some(v[j])); j += 1; }
        kani::cover!(e.run_count() == 2);
        std::mem::forget((e, b));
    }
} }
//@ property: C15
//@ tier: thorough
//@ optional: yes
//@ cap_s: 900
//@ cbmc_args: --max-field-sensitivity-array-size 4096
//@ unwind: 4
//@ mem_gb: 24
//@ encodes: RunLengthEncoding::{encode,decode,total_count,run_count}
//@ symbolic: 2 arbitrary u64 (both run structures of length 2)
//@ bound: n = 2
//@ oracle: decode == input; total_count == n
rle_decode!(c15_rle_decode_n2, 2, 4);
//@ property: C15
//@ tier: quick
//@ cap_s: 400
//@ unwind: 4
//@ mem_gb: 12
//@ encodes: RunLengthEncoding::{encode,get,iter}, RunLengthIterator::next
//@ symbolic: 2 arbitrary u64, symbolic probe index
//@ bound: n = 2
//@ oracle: get(i) == input[i], get(n) == None, iter() yields the input then None
rle_access!(c15_rle_access_n2, 2, 4);
//@ property: C15
//@ tier: thorough
//@ optional: yes
//@ cap_s: 900
//@ cbmc_args: --max-field-sensitivity-array-size 4096
//@ unwind: 4
//@ mem_gb: 24
//@ encodes: RunLengthEncoding::{encode,to_bytes,from_bytes,from_runs,get,total_count,run_count}
//@ symbolic: 2 arbitrary u64
//@ bound: n = 2
//@ oracle: from_bytes(to_bytes(e)) has the same runs, count and elements
rle_bytes!(c15_rle_bytes_n2, 2, 4);

//@ property: C15
//@ tier: thorough
//@ optional: yes
//@ mem_gb: 24
//@ cap_s: 900
//@ cbmc_args: --max-field-sensitivity-array-size 4096
//@ encodes: SignedRunLengthEncoding::{encode,decode,run_count}, runlength::zigzag_*
//@ symbolic: 2 i64 (all values)
//@ bound: n = 2
//@ oracle: decode == input
#[kani::proof]
#[kani::unwind(4)]
fn c15_rle_signed_n2() {
    let v: [i64; 2] = kani::any();
    let e = SignedRunLengthEncoding::encode(&v);
    let dcd = e.decode();
    assert!(eq_i64(&dcd, &v));
    kani::cover!(e.run_count() == 2 && v[0] == i64::MIN);
    kani::cover!(e.run_count() == 1);
    std::mem::forget((e, dcd));
}

//@ property: C15
//@ tier: quick
//@ cap_s: 400
//@ encodes: BitVector::{from_bools,get,set,push,len,count_ones,count_zeros,to_bytes,from_bytes,iter}
//@ symbolic: 5 bools, a set(index,value) with symbolic index/value, one push
//@ bound: n = 5 (+1 pushed); the 63/64/65 word boundary is in the thorough tier
//@ oracle: get(i) == model[i] after set and push; count_ones == model count; bytes round trip preserves every bit and len
#[kani::proof]
#[kani::unwind(8)]
fn c15_bitvec_n5() {
    let mut m: [bool; 6] = [false; 6];
    let init: [bool; 5] = kani::any();
    let mut i = 0; while i < 5 { m[i] = init[i]; i += 1; }
    let mut bv = BitVector::from_bools(&init);
    let k: usize = kani::any(); kani::assume(k < 5); let val: bool = kani::any();
    bv.set(k, val); m[k] = val;
    let pv: bool = kani::any(); bv.push(pv); m[5] = pv;
    assert!(bv.len() == 6);
    let mut ones = 0; let mut j = 0;
    while j < 6 { assert!(bv.get(j) == Some(m[j])); if m[j] { ones += 1; } j += 1; }
    assert!(bv.get(6).is_none());
    assert!(bv.count_ones() == ones && bv.count_zeros() == 6 - ones);
    let b = BitVector::from_bytes(&bv.to_bytes()).unwrap();
    assert!(b.len() == 6);
    let mut j = 0; while j < 6 { assert!(b.get(j) == Some(m[j])); j += 1; }
    kani::cover!(ones == 6); kani::cover!(ones == 0);
    std::mem::forget((bv, b));
}
