//! C14 (component kernels) — the adjacency index and the property storage tell the same story as a model,
//! without the rest of LpgStore (which is out of reach, DESIGN 9.2).
use crate::stubs::*;
use grafeo_common::types::{EdgeId, NodeId, PropertyKey, Value};
use grafeo_core::graph::lpg::PropertyStorage;
use grafeo_core::index::ChunkedAdjacency;

macro_rules! k_h {
    ($name:ident, $unwind:expr, $body:block) => {
        #[kani::proof]
        #[kani::unwind($unwind)]
        #[kani::stub(parking_lot::RawRwLock::lock_exclusive_slow, lk_slow)]
        #[kani::stub(parking_lot::RawRwLock::lock_shared_slow, lk_sh_slow)]
        #[kani::stub(parking_lot::RawRwLock::unlock_exclusive_slow, ulk_slow)]
        #[kani::stub(parking_lot::RawRwLock::unlock_shared_slow, ulk_sh_slow)]
        #[kani::stub(alloc::fmt::format, fmt_stub)]
        fn $name() $body
    };
}

//@ property: C14
//@ tier: thorough
//@ optional: yes
//@ cap_s: 900
//@ mem_gb: 12
//@ stubs: parking_lot slow paths, alloc::fmt::format
//@ encodes: ChunkedAdjacency::{with_chunk_capacity,add_edge,mark_deleted,edges_from,neighbors,out_degree,total_edge_count,active_edge_count}, AdjacencyList::{add_edge,mark_deleted,iter,degree}
//@ symbolic: source and destination of 3 edges among 2 nodes (self-loops and parallel edges included), which edge is deleted
//@ bound: 3 edges, 2 nodes, 1 deletion, delta buffer only (no compaction: see the thorough harness)
//@ oracle: for every node the outgoing list = exactly the live edges of the model with the right destination, each once; out_degree and neighbors agree with it; the deleted edge appears nowhere; active_edge_count = live edges
k_h!(c14_adjacency_agrees_with_model, 6, {
    let adj = ChunkedAdjacency::with_chunk_capacity(2);
    let ns = [NodeId::new(10), NodeId::new(11)];
    let s: [bool; 3] = kani::any(); let d: [bool; 3] = kani::any();
    let es = [EdgeId::new(100), EdgeId::new(101), EdgeId::new(102)];
    let mut i = 0;
    while i < 3 { adj.add_edge(ns[s[i] as usize], ns[d[i] as usize], es[i]); i += 1; }
    let del: usize = kani::any(); kani::assume(del < 3);
    adj.mark_deleted(ns[s[del] as usize], es[del]);
    assert!(adj.total_edge_count() == 3 && adj.active_edge_count() == 2);
    let mut n = 0;
    while n < 2 {
        let out = adj.edges_from(ns[n]);
        let nb = adj.neighbors(ns[n]);
        let mut want = 0; let mut e = 0;
        while e < 3 {
            let live_here = e != del && (s[e] as usize) == n;
            if live_here { want += 1; }
            let mut cnt = 0; let mut q = 0;
            while q < out.len() { if out[q].1 == es[e] { cnt += 1; assert!(out[q].0 == ns[d[e] as usize], "an edge is listed with the wrong destination"); } q += 1; }
            assert!(cnt == (live_here as usize), "the outgoing list disagrees with the live edges (missing, duplicated or deleted edge listed)");
            e += 1;
        }
        assert!(out.len() == want && nb.len() == want);
        assert!(adj.out_degree(ns[n]) == want, "out_degree disagrees with the outgoing list");
        std::mem::forget((out, nb));
        n += 1;
    }
    kani::cover!(s[0] == s[1] && s[1] == s[2] && d[0] == d[1]);
    kani::cover!(s[0] != s[1]);
    std::mem::forget(adj);
});

//@ property: C14
//@ tier: thorough
//@ optional: yes
//@ cap_s: 900
//@ mem_gb: 12
//@ stubs: parking_lot slow paths, alloc::fmt::format
//@ encodes: PropertyStorage::{new,set,get,remove,remove_all,get_all}, PropertyColumn::{set,get,remove}
//@ symbolic: three writes (which of 2 nodes, Int64 value), one remove (which node), one remove_all (which node or none)
//@ bound: one property key, 2 nodes, word set,set,set,remove,remove_all
//@ oracle: get(id) and get_all(id) equal the model's last written value; removed and remove_all'ed values appear nowhere
k_h!(c14_property_storage_agrees_with_model, 6, {
    let st: PropertyStorage<NodeId> = PropertyStorage::new();
    let key = PropertyKey::new("k");
    let ns = [NodeId::new(10), NodeId::new(11)];
    let mut model: [Option<i64>; 2] = [None, None];
    let mut i = 0;
    while i < 3 { let w: bool = kani::any(); let v: i64 = kani::any(); st.set(ns[w as usize], key.clone(), Value::Int64(v)); model[w as usize] = Some(v); i += 1; }
    let r: bool = kani::any();
    let old = st.remove(ns[r as usize], &key);
    assert!(matches!((&old, model[r as usize]), (Some(Value::Int64(a)), Some(b)) if *a == b) || (old.is_none() && model[r as usize].is_none()), "remove returned a value other than the stored one");
    model[r as usize] = None;
    std::mem::forget(old);
    let ra: u8 = kani::any(); kani::assume(ra < 3);
    if ra < 2 { st.remove_all(ns[ra as usize]); model[ra as usize] = None; }
    let mut n = 0;
    while n < 2 {
        let g = st.get(ns[n], &key);
        assert!(matches!((&g, model[n]), (Some(Value::Int64(a)), Some(b)) if *a == b) || (g.is_none() && model[n].is_none()), "get disagrees with the model");
        let all = st.get_all(ns[n]);
        assert!(all.len() == (model[n].is_some() as usize), "get_all disagrees with get");
        std::mem::forget((g, all));
        n += 1;
    }
    kani::cover!(model[0].is_some() && model[1].is_none());
    kani::cover!(model[0].is_none() && model[1].is_none());
    std::mem::forget((st, key));
});
