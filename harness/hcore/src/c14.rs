//! C14 — every access path to the property graph tells the same story (real LpgStore, concrete
//! operation words, symbolic arguments).
use crate::stubs::*;
use grafeo_common::types::{EdgeId, NodeId, PropertyKey, Value};
use grafeo_core::graph::lpg::{LpgStore, LpgStoreConfig};
use grafeo_core::graph::Direction;

macro_rules! lpg_h {
    ($name:ident, $unwind:expr, $body:block) => {
        #[kani::proof]
        #[kani::unwind($unwind)]
        #[kani::stub(parking_lot::RawRwLock::lock_exclusive_slow, lk_slow)]
        #[kani::stub(parking_lot::RawRwLock::lock_shared_slow, lk_sh_slow)]
        #[kani::stub(parking_lot::RawRwLock::unlock_exclusive_slow, ulk_slow)]
        #[kani::stub(parking_lot::RawRwLock::unlock_shared_slow, ulk_sh_slow)]
        #[kani::stub(parking_lot::RawMutex::lock_slow, mx_lock_slow)]
        #[kani::stub(parking_lot::RawMutex::unlock_slow, mx_unlock_slow)]
        #[kani::stub(alloc::fmt::format, fmt_stub)]
        #[kani::stub(std::hash::RandomState::new, std_rs_new)]
        #[kani::stub(ahash::RandomState::new, ahash_rs_new)]
        fn $name() $body
    };
}
fn lab(b: bool) -> &'static str { if b { "A" } else { "B" } }
fn has(v: &[NodeId], n: NodeId) -> bool { let mut h = false; let mut i = 0; while i < v.len() { if v[i] == n { h = true; } i += 1; } h }

//@ property: C14
//@ tier: thorough
//@ optional: yes
//@ cap_s: 600
//@ mem_gb: 10
//@ unwind: 5
//@ stubs: parking_lot slow paths, alloc::fmt::format, RandomState::new
//@ encodes: LpgStore::{new,create_node,add_label,remove_label,delete_node,nodes_by_label,get_node,node_count,node_ids}
//@ symbolic: initial label of each of 2 nodes, the label added, the label removed, which node each op addresses, which node is deleted
//@ bound: word create,create,add_label,remove_label,delete_node on 2 nodes and labels {A,B}
//@ oracle: bit model of (node,label): nodes_by_label(L) = exactly the live nodes carrying L; get_node(n).labels agrees; node_count/node_ids = live nodes; a deleted node appears nowhere
lpg_h!(c14_labels_word, 5, {
    let st = LpgStore::new();
    let (la, lb): (bool, bool) = (kani::any(), kani::any());
    let n0 = st.create_node(&[lab(la)]);
    let n1 = st.create_node(&[lab(lb)]);
    assert!(n0 != n1);
    // model: has[node][label A=0,B=1]
    let mut has_l = [[la, !la], [lb, !lb]];
    let mut live = [true, true];
    let ns = [n0, n1];
    // add_label
    let (i, l): (bool, bool) = (kani::any(), kani::any());
    let (ii, li) = (i as usize, if l { 0 } else { 1 });
    let added = st.add_label(ns[ii], lab(l));
    assert!(added == !has_l[ii][li]);
    has_l[ii][li] = true;
    // remove_label
    let (j, l2): (bool, bool) = (kani::any(), kani::any());
    let (jj, lj) = (j as usize, if l2 { 0 } else { 1 });
    let removed = st.remove_label(ns[jj], lab(l2));
    assert!(removed == has_l[jj][lj]);
    has_l[jj][lj] = false;
    // delete one node
    let d: bool = kani::any();
    let dd = d as usize;
    assert!(st.delete_node(ns[dd]));
    live[dd] = false;
    // every access path
    let by_a = st.nodes_by_label("A");
    let by_b = st.nodes_by_label("B");
    let mut k = 0;
    while k < 2 {
        assert!(has(&by_a, ns[k]) == (live[k] && has_l[k][0]), "label index disagrees with the live nodes carrying A");
        assert!(has(&by_b, ns[k]) == (live[k] && has_l[k][1]), "label index disagrees with the live nodes carrying B");
        let node = st.get_node(ns[k]);
        assert!(node.is_some() == live[k]);
        if let Some(nd) = &node {
            let (mut ha, mut hb) = (false, false);
            let mut q = 0; while q < nd.labels.len() { if &*nd.labels[q] == "A" { ha = true; } if &*nd.labels[q] == "B" { hb = true; } q += 1; }
            assert!(ha == has_l[k][0] && hb == has_l[k][1], "node record labels disagree with the model");
        }
        std::mem::forget(node);
        k += 1;
    }
    assert!(by_a.len() <= 1 && by_b.len() <= 1);
    assert!(st.node_count() == 1);
    let ids = st.node_ids();
    assert!(ids.len() == 1 && ids[0] == ns[1 - dd]);
    kani::cover!(by_a.len() == 1 && by_b.len() == 1);
    kani::cover!(by_a.is_empty() && by_b.is_empty());
    std::mem::forget((st, by_a, by_b, ids));
});

//@ property: C14
//@ tier: thorough
//@ optional: yes
//@ cap_s: 600
//@ mem_gb: 10
//@ unwind: 5
//@ stubs: parking_lot slow paths, alloc::fmt::format, RandomState::new
//@ encodes: LpgStore::{with_config,create_node,create_edge,delete_edge,get_edge,edges_from,edges_to,out_degree,in_degree,edge_count}, ChunkedAdjacency::{add_edge,mark_deleted,edges_from,out_degree,in_degree}
//@ symbolic: endpoints of 2 edges among 2 nodes (self-loops and parallel edges included), which edge is deleted, backward adjacency on/off
//@ bound: word create_node x2, create_edge x2, delete_edge x1
//@ oracle: outgoing/incoming lists and degrees of every node = the live edges of the model; edge_count = live edges; the deleted edge appears nowhere
lpg_h!(c14_edges_word, 5, {
    let backward: bool = kani::any();
    let mut cfg = LpgStoreConfig::default();
    cfg.backward_edges = backward;
    let st = LpgStore::with_config(cfg);
    let ns = [st.create_node(&[]), st.create_node(&[])];
    let (s0, d0, s1, d1): (bool, bool, bool, bool) = (kani::any(), kani::any(), kani::any(), kani::any());
    let src = [s0 as usize, s1 as usize]; let dst = [d0 as usize, d1 as usize];
    let es = [st.create_edge(ns[src[0]], ns[dst[0]], "T"), st.create_edge(ns[src[1]], ns[dst[1]], "T")];
    assert!(es[0] != es[1]);
    let del: bool = kani::any();
    let dd = del as usize;
    assert!(st.delete_edge(es[dd]));
    assert!(!st.delete_edge(es[dd]));
    let live = [dd != 0, dd != 1];
    assert!(st.edge_count() == 1);
    let mut n = 0;
    while n < 2 {
        let out: Vec<(NodeId, EdgeId)> = st.edges_from(ns[n], Direction::Outgoing).collect();
        let inc = st.edges_to(ns[n]);
        let (mut want_out, mut want_in) = (0, 0);
        let mut e = 0;
        while e < 2 {
            let is_out = live[e] && src[e] == n; let is_in = live[e] && dst[e] == n;
            if is_out { want_out += 1; } if is_in { want_in += 1; }
            let mut f_out = false; let mut q = 0; while q < out.len() { if out[q].1 == es[e] { f_out = true; assert!(out[q].0 == ns[dst[e]]); } q += 1; }
            let mut f_in = false; let mut q = 0; while q < inc.len() { if inc[q].1 == es[e] { f_in = true; assert!(inc[q].0 == ns[src[e]]); } q += 1; }
            assert!(f_out == is_out, "outgoing list disagrees with the live edges");
            assert!(f_in == is_in, "incoming list disagrees with the live edges");
            e += 1;
        }
        assert!(out.len() == want_out && inc.len() == want_in);
        assert!(st.out_degree(ns[n]) == want_out, "out_degree disagrees with the live edges");
        assert!(st.in_degree(ns[n]) == want_in, "in_degree disagrees with the live edges");
        std::mem::forget((out, inc));
        n += 1;
    }
    let g = st.get_edge(es[dd]); assert!(g.is_none()); std::mem::forget(g);
    let g = st.get_edge(es[1 - dd]); assert!(g.is_some()); std::mem::forget(g);
    kani::cover!(backward && src[0] == dst[0]);
    kani::cover!(!backward && src[0] == src[1] && dst[0] == dst[1]);
    std::mem::forget(st);
});
