use crate::stubs::*;
use grafeo_common::types::{EdgeId, NodeId, PropertyKey, Value};
use grafeo_core::graph::lpg::LpgStore;
macro_rules! ex {
    ($name:ident, $body:block) => {
        #[kani::proof]
        #[kani::unwind(5)]
        #[kani::stub(parking_lot::RawRwLock::lock_exclusive_slow, lk_slow)]
        #[kani::stub(parking_lot::RawRwLock::lock_shared_slow, lk_sh_slow)]
        #[kani::stub(parking_lot::RawRwLock::unlock_exclusive_slow, ulk_slow)]
        #[kani::stub(parking_lot::RawRwLock::unlock_shared_slow, ulk_sh_slow)]
        #[kani::stub(parking_lot::RawMutex::lock_slow, mx_lock_slow)]
        #[kani::stub(parking_lot::RawMutex::unlock_slow, mx_unlock_slow)]
        #[kani::stub(alloc::fmt::format, fmt_stub)]
        #[kani::stub(std::hash::RandomState::new, std_rs_new)]
        #[kani::stub(ahash::RandomState::new, ahash_rs_new)]
        fn $name() $body
    };
}
ex!(e0_new, { let st = LpgStore::new(); kani::cover!(true); std::mem::forget(st); });
ex!(e1_create_get, { let st = LpgStore::new(); let n = st.create_node(&["A"]); let g = st.get_node(n); assert!(g.is_some()); kani::cover!(true); std::mem::forget((st, g)); });
ex!(e2_create_symlabel_bylabel, { let st = LpgStore::new(); let b: bool = kani::any(); let n = st.create_node(&[if b { "A" } else { "B" }]); let v = st.nodes_by_label("A"); assert!(v.len() == b as usize); kani::cover!(true); std::mem::forget((st, v)); });
ex!(e3_two_delete_sym, { let st = LpgStore::new(); let n0 = st.create_node(&["A"]); let n1 = st.create_node(&["A"]); let d: bool = kani::any(); assert!(st.delete_node(if d { n0 } else { n1 })); let v = st.nodes_by_label("A"); assert!(v.len() == 1 && v[0] == if d { n1 } else { n0 }); kani::cover!(true); std::mem::forget((st, v)); });
