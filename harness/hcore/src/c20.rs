//! C20 — concurrent use (sequentialised): the memory manager never hands out more than its hard limit.
//! Kani has no threads. Hook H6 places `verif_yield(site)` where the real code sits between its
//! limit check and its update; the harness installs a function that runs the *other thread's*
//! pending allocation right there, under a symbolic decision. The solver chooses the schedule.
use crate::stubs::*;
use grafeo_common::memory::buffer::{BufferManager, BufferManagerConfig, GrantReleaser, MemoryGrant, MemoryRegion};
use std::sync::Arc;

static mut MGR: Option<Arc<BufferManager>> = None;
static mut PENDING: Option<(usize, bool)> = None; // (size, run at yield?)
static mut OTHER_GRANT: Option<MemoryGrant> = None;
static mut OTHER_RAN: bool = false;

fn yield_hook(_site: u32) {
    unsafe {
        if let Some((size, at_yield)) = PENDING {
            if at_yield {
                PENDING = None; // the other thread's operation runs to completion here (once)
                if let Some(m) = &MGR { let g = m.try_allocate(size, MemoryRegion::ExecutionBuffers); std::ptr::write(&raw mut OTHER_GRANT, g); OTHER_RAN = true; }
            }
        }
    }
}

/// no consumers are registered in these harnesses, so an eviction round frees nothing (the real function sorts the
/// empty consumer list; symbolic execution of the sort dominated the run)
fn no_eviction(_m: &BufferManager, _to_free: usize) -> usize { 0 }

fn cfg(budget: usize) -> BufferManagerConfig {
    // limits == budget (fractions 1.0): no float rounding in the claim; built field by field because
    // Default::default() reads /proc/meminfo
    BufferManagerConfig { budget, soft_limit_fraction: 1.0, evict_limit_fraction: 1.0, hard_limit_fraction: 1.0, background_eviction: false, spill_path: None }
}

macro_rules! buf_h {
    ($name:ident, $body:block) => {
        #[kani::proof]
        #[kani::unwind(4)]
        #[kani::stub(parking_lot::RawRwLock::lock_exclusive_slow, lk_slow)]
        #[kani::stub(parking_lot::RawRwLock::lock_shared_slow, lk_sh_slow)]
        #[kani::stub(parking_lot::RawRwLock::unlock_exclusive_slow, ulk_slow)]
        #[kani::stub(parking_lot::RawRwLock::unlock_shared_slow, ulk_sh_slow)]
        #[kani::stub(alloc::fmt::format, fmt_stub)]
        #[kani::stub(grafeo_common::memory::buffer::manager::BufferManager::run_eviction_internal, no_eviction)]
        fn $name() $body
    };
}

//@ property: C20
//@ tier: quick
//@ cap_s: 400
//@ stubs: parking_lot slow paths, alloc::fmt::format, BufferManager::run_eviction_internal -> 0 (no consumers registered)
//@ encodes: BufferManager::{new,try_allocate,allocated,run_eviction_cycle,check_pressure}, MemoryGrant::{new,size,region}, GrantReleaser::release (grants released through the manager's release path; MemoryGrant's Drop glue itself is not executed)
//@ symbolic: the request size (every usize, including sizes that overflow current + size) and a first allocation already held
//@ bound: one thread, two allocations; budget 1000 bytes, hard limit = budget (fractions 1.0), no registered consumers
//@ oracle: allocated() never exceeds the hard limit; a refused request leaves the accounting unchanged; dropping every grant returns the accounting to zero; no arithmetic overflow panic
buf_h!(c20_bufmgr_single_thread_limit, {
    let m = BufferManager::new(cfg(1000));
    let s1: usize = kani::any(); let s2: usize = kani::any();
    let g1 = m.try_allocate(s1, MemoryRegion::GraphStorage);
    assert!(g1.is_some() == (s1 <= 1000));
    assert!(m.allocated() <= 1000);
    let before = m.allocated();
    let g2 = m.try_allocate(s2, MemoryRegion::ExecutionBuffers);
    assert!(m.allocated() <= 1000, "more memory handed out than the hard limit");
    if g2.is_none() { assert!(m.allocated() == before); } else { assert!(m.allocated() == before + s2); }
    kani::cover!(g1.is_some() && g2.is_none());
    kani::cover!(g1.is_some() && g2.is_some() && s2 > 0);
    // release every grant through the manager's own release path (the grants themselves are forgotten: dropping an
    // Arc<dyn GrantReleaser> makes symbolic execution recurse through the manager's drop glue)
    if let Some(g) = &g2 { m.release(g.size(), g.region()); }
    if let Some(g) = &g1 { m.release(g.size(), g.region()); }
    assert!(m.allocated() == 0, "accounting does not return to zero");
    std::mem::forget((m, g1, g2));
});

//@ property: C20
//@ tier: quick
//@ cap_s: 600
//@ stubs: parking_lot slow paths, alloc::fmt::format, BufferManager::run_eviction_internal -> 0 (no consumers registered)
//@ encodes: BufferManager::try_allocate x2 interleaved at the verif_yield point between limit check and update, GrantReleaser::release
//@ symbolic: both request sizes (<= 2^20), whether thread B's allocation runs inside thread A's window or after it
//@ bound: 2 threads x 1 allocation, well-nested schedules only (B runs entirely inside A's check/update window, or after A); budget 1000; atomics sequentially consistent; no consumers
//@ oracle: after both calls return allocated() <= hard limit and == sum of the granted sizes; after dropping all grants the accounting is zero
buf_h!(c20_bufmgr_two_threads_limit, {
    let m = BufferManager::new(cfg(1000));
    let (sa, sb): (usize, usize) = (kani::any(), kani::any());
    kani::assume(sa <= (1 << 20) && sb <= (1 << 20));
    let inside: bool = kani::any();
    unsafe { std::ptr::write(&raw mut MGR, Some(Arc::clone(&m))); PENDING = Some((sb, inside)); std::ptr::write(&raw mut OTHER_GRANT, None); OTHER_RAN = false; grafeo_common::VERIF_YIELD = Some(yield_hook); }
    let ga = m.try_allocate(sa, MemoryRegion::GraphStorage);
    // thread B runs after A if it did not run inside A's window
    unsafe { if !OTHER_RAN { PENDING = Some((sb, true)); yield_hook(0); } grafeo_common::VERIF_YIELD = None; }
    let gb = unsafe { std::ptr::read(&raw const OTHER_GRANT) };
    let granted = (if ga.is_some() { sa } else { 0 }) + (if gb.is_some() { sb } else { 0 });
    assert!(m.allocated() == granted, "accounting disagrees with the grants handed out");
    assert!(m.allocated() <= 1000, "two concurrent allocations together exceed the hard limit");
    kani::cover!(inside && ga.is_some() && gb.is_some());
    kani::cover!(inside && ga.is_some() != gb.is_some());
    if let Some(g) = &ga { m.release(g.size(), g.region()); }
    if let Some(g) = &gb { m.release(g.size(), g.region()); }
    assert!(m.allocated() == 0);
    std::mem::forget((m, ga, gb));
});

//@ property: C20
//@ tier: quick
//@ cap_s: 400
//@ stubs: parking_lot slow paths, alloc::fmt::format, BufferManager::run_eviction_internal -> 0 (no consumers registered)
//@ encodes: MemoryGrant::{resize,size,region}, BufferManager::{try_allocate,try_allocate_raw,try_reserve,release,allocated}
//@ symbolic: the initial grant size and the size it is resized to (every usize)
//@ bound: one thread, one grant, one resize (grow or shrink); budget 1000, hard limit = budget
//@ oracle: the manager's total always equals the size the grant reports; a refused grow leaves both unchanged; the limit is never exceeded; releasing the grant's reported size returns the accounting to zero
buf_h!(c20_grant_resize_accounting, {
    let m = BufferManager::new(cfg(1000));
    let s1: usize = kani::any(); let s2: usize = kani::any();
    let g = m.try_allocate(s1, MemoryRegion::GraphStorage);
    if let Some(mut g) = g {
        assert!(m.allocated() == s1 && g.size() == s1);
        let ok = g.resize(s2);
        assert!(m.allocated() <= 1000, "more memory handed out than the hard limit");
        assert!(m.allocated() == g.size(), "the grant reports a size the manager did not account for");
        if ok { assert!(g.size() == s2); } else { assert!(g.size() == s1 && s2 > s1, "a refused resize changed the grant"); }
        kani::cover!(!ok);
        kani::cover!(ok && s2 > s1);
        kani::cover!(ok && s2 < s1);
        m.release(g.size(), g.region());
        assert!(m.allocated() == 0, "accounting does not return to zero");
        std::mem::forget(g);
    } else {
        assert!(s1 > 1000);
    }
    std::mem::forget(m);
});
