//! C17 — parallel / push / spill equal sequential (thread-free kernels).
use grafeo_core::execution::parallel::{generate_morsels, Morsel};

//@ property: C17
//@ tier: quick
//@ cap_s: 600
//@ mem_gb: 10
//@ encodes: parallel::morsel::generate_morsels, Morsel::{new,row_count,is_empty}
//@ symbolic: total row count (0..=3), morsel size (EVERY usize, including 0, sizes larger than the input and sizes near usize::MAX), source id
//@ bound: at most 3 rows (so at most 3 morsels)
//@ oracle: morsels are consecutive, non-empty, disjoint, cover [0,total) exactly, ids are 0,1,2,...; no arithmetic overflow panic
#[kani::proof]
#[kani::unwind(5)]
fn c17_morsels_cover_exactly() {
    let total: usize = kani::any(); kani::assume(total <= 3);
    let size: usize = kani::any();
    let src: usize = kani::any();
    let ms = generate_morsels(total, size, src);
    if total == 0 || size == 0 { assert!(ms.is_empty()); }
    else {
        let mut next = 0usize; let mut i = 0;
        while i < ms.len() {
            assert!(ms[i].id == i && ms[i].source_id == src);
            assert!(ms[i].start_row == next, "morsels are not consecutive");
            assert!(ms[i].end_row > ms[i].start_row && ms[i].end_row <= total, "empty or overlong morsel");
            assert!(ms[i].row_count() == ms[i].end_row - ms[i].start_row && ms[i].row_count() <= size);
            next = ms[i].end_row; i += 1;
        }
        assert!(next == total, "morsels do not cover the input exactly");
    }
    kani::cover!(ms.len() == 3);
    kani::cover!(ms.len() == 1 && size > total);
    std::mem::forget(ms);
}

//@ property: C17
//@ tier: quick
//@ cap_s: 300
//@ encodes: Morsel::split_at
//@ symbolic: a morsel [start,end) with any bounds, split offset (start + offset representable), id < usize::MAX
//@ bound: none (loop free)
//@ oracle: a split yields two non-empty adjacent morsels that together are the original range; no overflow panic
#[kani::proof]
#[kani::unwind(2)]
fn c17_morsel_split() {
    let (s, e, off): (usize, usize, usize) = (kani::any(), kani::any(), kani::any());
    kani::assume(s <= e);
    kani::assume(off <= usize::MAX - s);            // precondition: the offset is a row offset inside addressable range
    let id: usize = kani::any(); kani::assume(id < usize::MAX);
    let m = Morsel::new(id, kani::any(), s, e);
    match m.split_at(off) {
        Some((a, b)) => { assert!(a.start_row == s && a.end_row == b.start_row && b.end_row == e); assert!(a.row_count() + b.row_count() == e - s); assert!(!a.is_empty() && !b.is_empty()); }
        None => { assert!(off == 0 || off >= e - s); }
    }
    kani::cover!(off > 0 && off < e - s);
}

use grafeo_common::types::Value;
use grafeo_core::execution::parallel::MergeableAccumulator;

fn acc_of(vals: &[i64]) -> MergeableAccumulator { let mut a = MergeableAccumulator::new(); let mut i = 0; while i < vals.len() { a.add(&Value::Int64(vals[i])); i += 1; } a }
fn same_acc(a: &MergeableAccumulator, b: &MergeableAccumulator) -> bool {
    fn int_of(v: &Option<Value>) -> Option<i64> { match v { Some(Value::Int64(i)) => Some(*i), _ => None } }
    a.count == b.count && a.sum.to_bits() == b.sum.to_bits() && int_of(&a.min) == int_of(&b.min) && int_of(&a.max) == int_of(&b.max) && int_of(&a.first) == int_of(&b.first)
}

//@ property: C17
//@ tier: thorough
//@ optional: yes
//@ cap_s: 900
//@ mem_gb: 12
//@ encodes: MergeableAccumulator::{new,add,merge,finalize_count,finalize_sum}, compare_for_min/max, value_to_f64
//@ symbolic: three Int64 values in +-2^20 (so that f64 sums are exact); every split point 0..=3 (unrolled)
//@ bound: 3 values, 2 partial accumulators
//@ oracle: merging the accumulators of the left and right part gives the same count, sum (bitwise), min, max and first as one sequential accumulator
#[kani::proof]
#[kani::unwind(5)]
fn c17_accumulator_merge_equals_sequential() {
    let v: [i64; 3] = kani::any();
    kani::assume(v[0].abs() <= (1 << 20) && v[1].abs() <= (1 << 20) && v[2].abs() <= (1 << 20));
    let seq = acc_of(&v);
    macro_rules! split { ($k:expr) => {{
        let mut left = acc_of(&v[..$k]); let right = acc_of(&v[$k..]);
        left.merge(&right);
        assert!(same_acc(&left, &seq), "merged partial aggregates differ from the sequential aggregate");
        std::mem::forget((left, right));
    }}; }
    split!(0); split!(1); split!(2); split!(3);
    assert!(matches!(seq.finalize_count(), Value::Int64(3)));
    kani::cover!(v[0] > v[1] && v[1] > v[2]);
    kani::cover!(v[0] == v[2]);
    std::mem::forget(seq);
}
