//! C17 — parallel / push / spill equal sequential (thread-free kernels).
use grafeo_core::execution::parallel::{generate_morsels, Morsel};

//@ property: C17
//@ tier: quick
//@ cap_s: 600
//@ mem_gb: 10
//@ encodes: parallel::morsel::generate_morsels, Morsel::{new,row_count,is_empty}
//@ symbolic: total row count (0..=3), morsel size (EVERY usize, including 0, sizes larger than the input and sizes near usize::MAX), source id
//@ bound: at most 3 rows (so at most 3 morsels)
//@ oracle: morsels are consecutive, non-empty, disjoint, cover [0,total) exactly, ids are 0,1,2,...; no arithmetic overflow panic
#[kani::proof]
#[kani::unwind(5)]
fn c17_morsels_cover_exactly() {
    let total: usize = kani::any(); kani::assume(total <= 3);
    let size: usize = kani::any();
    let src: usize = kani::any();
    let ms = generate_morsels(total, size, src);
    if total == 0 || size == 0 { assert!(ms.is_empty()); }
    else {
        let mut next = 0usize; let mut i = 0;
        while i < ms.len() {
            assert!(ms[i].id == i && ms[i].source_id == src);
            assert!(ms[i].start_row == next, "morsels are not consecutive");
            assert!(ms[i].end_row > ms[i].start_row && ms[i].end_row <= total, "empty or overlong morsel");
            assert!(ms[i].row_count() == ms[i].end_row - ms[i].start_row && ms[i].row_count() <= size);
            next = ms[i].end_row; i += 1;
        }
        assert!(next == total, "morsels do not cover the input exactly");
    }
    kani::cover!(ms.len() == 3);
    kani::cover!(ms.len() == 1 && size > total);
    std::mem::forget(ms);
}

//@ property: C17
//@ tier: quick
//@ cap_s: 300
//@ encodes: Morsel::split_at
//@ symbolic: a morsel [start,end) with any bounds, split offset (start + offset representable), id < usize::MAX
//@ bound: none (loop free)
//@ oracle: a split yields two non-empty adjacent morsels that together are the original range; no overflow panic
#[kani::proof]
#[kani::unwind(2)]
fn c17_morsel_split() {
    let (s, e, off): (usize, usize, usize) = (kani::any(), kani::any(), kani::any());
    kani::assume(s <= e);
    kani::assume(off <= usize::MAX - s);            // precondition: the offset is a row offset inside addressable range
    let id: usize = kani::any(); kani::assume(id < usize::MAX);
    let m = Morsel::new(id, kani::any(), s, e);
    match m.split_at(off) {
        Some((a, b)) => { assert!(a.start_row == s && a.end_row == b.start_row && b.end_row == e); assert!(a.row_count() + b.row_count() == e - s); assert!(!a.is_empty() && !b.is_empty()); }
        None => { assert!(off == 0 || off >= e - s); }
    }
    kani::cover!(off > 0 && off < e - s);
}
