//! C12 (expression arithmetic never panics) and C11 (three-valued partition) on the real evaluator
//! kernels of filter.rs, entered through the cfg(kani) wrappers (hook H9).
use crate::stubs::*;
use grafeo_common::types::{Timestamp, Value};
use grafeo_core::execution::operators::{AggregateFunction, BinaryFilterOp, ExpressionPredicate, FilterExpression, UnaryFilterOp, VerifAggregateState};
use grafeo_core::graph::lpg::LpgStore;
use std::sync::Arc;

/// The evaluator methods take `&self` but never touch the store or the expression for the
/// operator kernels; an ExpressionPredicate over `Literal(Null)` with an empty store is enough.
pub fn pred() -> ExpressionPredicate {
    ExpressionPredicate::new(FilterExpression::Literal(Value::Null), std::collections::HashMap::new(), Arc::new(LpgStore::new()))
}
/// scalar operand of concrete kind: 0 Null, 1 Bool, 2 Int64, 3 Float64, 4 Timestamp (payload symbolic)
pub fn operand(kind: u8) -> Value {
    match kind { 0 => Value::Null, 1 => Value::Bool(kani::any()), 2 => Value::Int64(kani::any()), 3 => Value::Float64(f64::from_bits(kani::any())), _ => Value::Timestamp(Timestamp::from_micros(kani::any())) }
}

macro_rules! expr_h {
    ($name:ident, $body:block) => {
        #[kani::proof]
        #[kani::unwind(5)]
        #[kani::stub(parking_lot::RawRwLock::lock_exclusive_slow, lk_slow)]
        #[kani::stub(parking_lot::RawRwLock::lock_shared_slow, lk_sh_slow)]
        #[kani::stub(parking_lot::RawRwLock::unlock_exclusive_slow, ulk_slow)]
        #[kani::stub(parking_lot::RawRwLock::unlock_shared_slow, ulk_sh_slow)]
        #[kani::stub(parking_lot::RawMutex::lock_slow, mx_lock_slow)]
        #[kani::stub(parking_lot::RawMutex::unlock_slow, mx_unlock_slow)]
        #[kani::stub(alloc::fmt::format, fmt_stub)]
        #[kani::stub(std::hash::RandomState::new, std_rs_new)]
        #[kani::stub(ahash::RandomState::new, ahash_rs_new)]
        #[kani::stub(regex::Regex::new, regex_new_stub)]
        fn $name() $body
    };
}

/// every arithmetic operator on one operand-kind pair: returns, never panics
fn arith_all(p: &ExpressionPredicate, ka: u8, kb: u8) -> u8 {
    let (a, b) = (operand(ka), operand(kb));
    let mut some = 0u8;
    let r = p.verif_eval_binary_op(&a, BinaryFilterOp::Add, &b); if r.is_some() { some |= 1; } std::mem::forget(r);
    let r = p.verif_eval_binary_op(&a, BinaryFilterOp::Sub, &b); if r.is_some() { some |= 2; } std::mem::forget(r);
    let r = p.verif_eval_binary_op(&a, BinaryFilterOp::Mul, &b); if r.is_some() { some |= 4; } std::mem::forget(r);
    let r = p.verif_eval_binary_op(&a, BinaryFilterOp::Div, &b); if r.is_some() { some |= 8; } std::mem::forget(r);
    let r = p.verif_eval_binary_op(&a, BinaryFilterOp::Mod, &b); if r.is_some() { some |= 16; } std::mem::forget(r);
    std::mem::forget((a, b));
    some
}

//@ property: C12
//@ tier: quick
//@ cap_s: 400
//@ stubs: parking_lot slow paths, alloc::fmt::format, RandomState::new, regex::Regex::new
//@ encodes: ExpressionPredicate::{eval_binary_op,eval_arithmetic,eval_modulo} for + - * / % on Int64 x Int64
//@ symbolic: both operands: every pair of i64 values
//@ bound: none (loop free)
//@ oracle: the evaluator returns (Some or None) for every operand pair: no panic on overflow, division by zero, i64::MIN / -1, i64::MIN % -1 (dev-profile semantics: overflow checks on)
expr_h!(c12_arith_int_int, { let p = pred(); let s = arith_all(&p, 2, 2); kani::cover!(s == 31); kani::cover!(s & 8 == 0); std::mem::forget(p); });

//@ property: C12
//@ tier: quick
//@ cap_s: 400
//@ stubs: parking_lot slow paths, alloc::fmt::format, RandomState::new, regex::Regex::new
//@ encodes: ExpressionPredicate::{eval_binary_op,eval_arithmetic,eval_modulo} for + - * / % on Int64 x Float64 and Float64 x Int64
//@ symbolic: every i64 and every f64 bit pattern
//@ bound: none (loop free)
//@ oracle: returns without panic for all operands (NaN, infinities, zero divisors included)
expr_h!(c12_arith_int_float, { let p = pred(); let s = arith_all(&p, 2, 3); let t = arith_all(&p, 3, 2); kani::cover!(s & 8 != 0 && t & 16 != 0); std::mem::forget(p); });

//@ property: C12
//@ tier: quick
//@ cap_s: 400
//@ stubs: parking_lot slow paths, alloc::fmt::format, RandomState::new, regex::Regex::new
//@ encodes: ExpressionPredicate::{eval_binary_op,eval_arithmetic,eval_modulo} for + - * / % on Float64 x Float64 and on mismatched kinds (Null, Bool, Timestamp operands)
//@ symbolic: all f64 bit patterns; Bool/Timestamp payloads
//@ bound: none (loop free)
//@ oracle: returns without panic; mismatched kinds give None
expr_h!(c12_arith_float_and_mismatch, {
    let p = pred();
    let s = arith_all(&p, 3, 3); kani::cover!(s == 31);
    assert!(arith_all(&p, 0, 2) == 0); assert!(arith_all(&p, 2, 1) == 0); assert!(arith_all(&p, 4, 3) == 0); assert!(arith_all(&p, 1, 1) == 0);
    std::mem::forget(p);
});

//@ property: C12
//@ tier: quick
//@ cap_s: 400
//@ stubs: parking_lot slow paths, alloc::fmt::format, RandomState::new, regex::Regex::new
//@ encodes: ExpressionPredicate::eval_unary_op (Neg, Not, IsNull, IsNotNull)
//@ symbolic: operand of every scalar kind (all payload bits), and the absent operand (None)
//@ bound: none (loop free)
//@ oracle: returns without panic (-i64::MIN included); IsNull and IsNotNull are complementary
expr_h!(c12_unary_ops, {
    let p = pred();
    let mk = |k: u8| -> Option<Value> { if k == 5 { None } else { Some(operand(k)) } };
    macro_rules! one { ($k:expr) => {{
        let r = p.verif_eval_unary_op(UnaryFilterOp::Neg, mk($k)); std::mem::forget(r);
        let r = p.verif_eval_unary_op(UnaryFilterOp::Not, mk($k)); std::mem::forget(r);
        let n = p.verif_eval_unary_op(UnaryFilterOp::IsNull, mk($k));
        let nn = p.verif_eval_unary_op(UnaryFilterOp::IsNotNull, mk($k));
        let (a, b) = (matches!(n, Some(Value::Bool(true))), matches!(nn, Some(Value::Bool(true))));
        assert!(a != b); assert!(a == ($k == 0 || $k == 5));
        std::mem::forget((n, nn));
    }}; }
    one!(0); one!(1); one!(2); one!(3); one!(4); one!(5);
    kani::cover!(true);
    std::mem::forget(p);
});

/// three-valued partition for p = a OP b. NOT and IS NULL are applied to a value whose variant is concrete at every
/// call site (a symbolic variant would make the evaluator's drop of its operand walk Value's whole drop glue).
fn partition(p: &ExpressionPredicate, op: BinaryFilterOp, ka: u8, kb: u8) -> u8 {
    let (a, b) = (operand(ka), operand(kb));
    let v = p.verif_eval_binary_op(&a, op, &b);
    let is_true = matches!(v, Some(Value::Bool(true)));
    let (not_v, isnull_v) = match &v {
        Some(Value::Bool(x)) => (p.verif_eval_unary_op(UnaryFilterOp::Not, Some(Value::Bool(*x))), p.verif_eval_unary_op(UnaryFilterOp::IsNull, Some(Value::Bool(*x)))),
        Some(Value::Null) => (p.verif_eval_unary_op(UnaryFilterOp::Not, Some(Value::Null)), p.verif_eval_unary_op(UnaryFilterOp::IsNull, Some(Value::Null))),
        None => (p.verif_eval_unary_op(UnaryFilterOp::Not, None), p.verif_eval_unary_op(UnaryFilterOp::IsNull, None)),
        _ => { assert!(false, "a comparison or connective produced a non-boolean, non-null value"); (None, None) }
    };
    let is_false = matches!(not_v, Some(Value::Bool(true)));
    let is_unknown = matches!(isnull_v, Some(Value::Bool(true)));
    assert!((is_true as u8) + (is_false as u8) + (is_unknown as u8) == 1, "rows do not split exactly into p true / p false / p unknown");
    std::mem::forget((a, b, v, not_v, isnull_v));
    (is_true as u8) | ((is_false as u8) << 1) | ((is_unknown as u8) << 2)
}
macro_rules! part_all_kinds { ($p:expr, $op:expr) => {{
    let mut seen = 0u8;
    seen |= partition($p, $op, 0, 0); seen |= partition($p, $op, 0, 2); seen |= partition($p, $op, 1, 1); seen |= partition($p, $op, 1, 2);
    seen |= partition($p, $op, 2, 2); seen |= partition($p, $op, 2, 3); seen |= partition($p, $op, 3, 2); seen |= partition($p, $op, 3, 3);
    seen |= partition($p, $op, 4, 4); seen |= partition($p, $op, 2, 0); seen |= partition($p, $op, 3, 4);
    seen
}}; }

//@ property: C11
//@ tier: quick
//@ cap_s: 600
//@ mem_gb: 10
//@ stubs: parking_lot slow paths, alloc::fmt::format, RandomState::new, regex::Regex::new
//@ encodes: ExpressionPredicate::{eval_binary_op,eval_unary_op,values_equal} for = and <>
//@ symbolic: operands over 11 kind pairs among Null/Bool/Int64/Float64/Timestamp (matching and mismatched), all payload bits
//@ bound: scalar operands without strings; one comparison, its negation and its IS NULL
//@ oracle: for every row exactly one of p, NOT p, p IS NULL holds
expr_h!(c11_partition_eq_ne, { let p = pred(); let a = part_all_kinds!(&p, BinaryFilterOp::Eq); let b = part_all_kinds!(&p, BinaryFilterOp::Ne); kani::cover!(a & 3 == 3 && b & 3 == 3); std::mem::forget(p); });

//@ property: C11
//@ tier: quick
//@ cap_s: 600
//@ mem_gb: 10
//@ stubs: parking_lot slow paths, alloc::fmt::format, RandomState::new, regex::Regex::new
//@ encodes: ExpressionPredicate::{eval_binary_op,eval_unary_op,compare_values} for < <= > >=
//@ symbolic: operands over 11 kind pairs (NaN and mismatched kinds included), all payload bits
//@ bound: scalar operands without strings
//@ oracle: for every row exactly one of p, NOT p, p IS NULL holds (mismatched kinds are unknown)
expr_h!(c11_partition_order, {
    let p = pred();
    let a = part_all_kinds!(&p, BinaryFilterOp::Lt); let b = part_all_kinds!(&p, BinaryFilterOp::Le);
    let c = part_all_kinds!(&p, BinaryFilterOp::Gt); let d = part_all_kinds!(&p, BinaryFilterOp::Ge);
    kani::cover!(a & 4 != 0 && a & 3 != 0 && d & 3 != 0);
    std::mem::forget(p);
});

//@ property: C11
//@ tier: quick
//@ cap_s: 600
//@ mem_gb: 10
//@ stubs: parking_lot slow paths, alloc::fmt::format, RandomState::new, regex::Regex::new
//@ encodes: ExpressionPredicate::{eval_binary_op,eval_unary_op} for AND OR XOR
//@ symbolic: operands over 11 kind pairs (non-boolean operands included)
//@ bound: scalar operands without strings
//@ oracle: for every row exactly one of p, NOT p, p IS NULL holds
expr_h!(c11_partition_connectives, {
    let p = pred();
    let a = part_all_kinds!(&p, BinaryFilterOp::And); let b = part_all_kinds!(&p, BinaryFilterOp::Or); let c = part_all_kinds!(&p, BinaryFilterOp::Xor);
    kani::cover!(a & 4 != 0 && a & 3 != 0 && b & 3 != 0 && c & 3 != 0);
    std::mem::forget(p);
});


/// three values through the real per-group aggregate state machine (hook H13), as the aggregate operators feed it
fn fold3(f: AggregateFunction, a: Value, b: Value, c: Value) -> Value {
    let mut s = VerifAggregateState::new(f);
    s.update(Some(a)); s.update(Some(b)); s.update(Some(c));
    let r = s.finalize();
    std::mem::forget(s);
    r
}

//@ property: C11
//@ tier: thorough
//@ optional: yes
//@ cap_s: 1500
//@ mem_gb: 16
//@ unwindset: ^std::ptr::drop_glue::<:1; ^std::ptr::drop_in_place::<:1; as std::clone::Clone>::clone$:1; drop_slow$:1
//@ encodes: AggregateState::{new,update,finalize} for Count, CountNonNull, Min, Max, First, Last, Sum (aggregate.rs, via hook H13), aggregate.rs compare_values
//@ symbolic: the number of rows fed to count(*) (0..3); three Int64 values (all i64) fed to the other aggregates
//@ bound: groups of at most 3 rows, Int64 values, no DISTINCT
//@ oracle: count(*) = number of rows; count(x) = 3; min / max / first / last = their definitions; sum = a + b + c when it fits in i64, and not an integer when it does not (never a panic)
#[kani::proof]
#[kani::unwind(4)]
fn c11_aggregates_int_vs_definitions() {
    let (a, b, c): (i64, i64, i64) = (kani::any(), kani::any(), kani::any());
    let v = |x: i64| Value::Int64(x);
    let mut s = VerifAggregateState::new(AggregateFunction::Count);
    let k: u8 = kani::any(); kani::assume(k <= 3);
    let mut i = 0; while i < 3 { if i < k { s.update(None); } i += 1; }
    let r = s.finalize();
    assert!(matches!(r, Value::Int64(n) if n == k as i64), "count(*) is not the number of rows");
    std::mem::forget((s, r));
    let r = fold3(AggregateFunction::CountNonNull, v(a), v(b), v(c)); assert!(matches!(r, Value::Int64(3)), "count(x) is not the number of values"); std::mem::forget(r);
    let mn = if a <= b && a <= c { a } else if b <= c { b } else { c };
    let mx = if a >= b && a >= c { a } else if b >= c { b } else { c };
    let r = fold3(AggregateFunction::Min, v(a), v(b), v(c)); assert!(matches!(r, Value::Int64(x) if x == mn), "min is not the minimum"); std::mem::forget(r);
    let r = fold3(AggregateFunction::Max, v(a), v(b), v(c)); assert!(matches!(r, Value::Int64(x) if x == mx), "max is not the maximum"); std::mem::forget(r);
    let r = fold3(AggregateFunction::First, v(a), v(b), v(c)); assert!(matches!(r, Value::Int64(x) if x == a), "first is not the first value"); std::mem::forget(r);
    let r = fold3(AggregateFunction::Last, v(a), v(b), v(c)); assert!(matches!(r, Value::Int64(x) if x == c), "last is not the last value"); std::mem::forget(r);
    let r = fold3(AggregateFunction::Sum, v(a), v(b), v(c));
    match a.checked_add(b).and_then(|t| t.checked_add(c)) {
        Some(t) => assert!(matches!(r, Value::Int64(x) if x == t), "sum is not the sum"),
        None => assert!(!matches!(r, Value::Int64(_)), "an integer sum that does not fit in i64 was reported as an integer"),
    }
    kani::cover!(a.checked_add(b).is_none());
    kani::cover!(k == 3 && mn == c && mx == a);
    std::mem::forget(r);
}

//@ property: C12
//@ tier: thorough
//@ optional: yes
//@ cap_s: 1500
//@ mem_gb: 16
//@ unwindset: ^std::ptr::drop_glue::<:1; ^std::ptr::drop_in_place::<:1; as std::clone::Clone>::clone$:1; drop_slow$:1
//@ encodes: AggregateState::{new,update,finalize} for Sum, Min, Max on Int64 values (via hook H13)
//@ symbolic: three Int64 values (all i64)
//@ bound: groups of 3 rows
//@ oracle: the aggregates return a value and never panic on extreme integers (i64::MAX + 1, i64::MIN + -1; dev-profile semantics: overflow checks on)
#[kani::proof]
#[kani::unwind(4)]
fn c12_aggregates_int_never_panic() {
    let (a, b, c): (i64, i64, i64) = (kani::any(), kani::any(), kani::any());
    let r = fold3(AggregateFunction::Sum, Value::Int64(a), Value::Int64(b), Value::Int64(c));
    kani::cover!(matches!(r, Value::Null));
    kani::cover!(matches!(r, Value::Int64(_)));
    std::mem::forget(r);
    let r = fold3(AggregateFunction::Min, Value::Int64(a), Value::Int64(b), Value::Int64(c)); std::mem::forget(r);
    let r = fold3(AggregateFunction::Max, Value::Int64(a), Value::Int64(b), Value::Int64(c)); std::mem::forget(r);
}

//@ property: C11
//@ tier: thorough
//@ optional: yes
//@ cap_s: 1500
//@ mem_gb: 16
//@ unwindset: ^std::ptr::drop_glue::<:1; ^std::ptr::drop_in_place::<:1; as std::clone::Clone>::clone$:1; drop_slow$:1
//@ encodes: AggregateState::{new,update,finalize} for Avg and Sum on Int64 / Float64 mixes (via hook H13), value_to_f64
//@ symbolic: two Int64 values (all i64) and three Float64 values (all bit patterns)
//@ bound: groups of 3 rows in the kind orders int-int-float and float-float-float
//@ oracle: avg = (0.0 + x + y + z) / 3 and the float sum = 0.0 + f + g + h, bit for bit (NaN compared as NaN); no panic
#[kani::proof]
#[kani::unwind(4)]
fn c11_aggregates_avg_and_float_sum() {
    let (a, b): (i64, i64) = (kani::any(), kani::any());
    let (f, g, h): (f64, f64, f64) = (f64::from_bits(kani::any()), f64::from_bits(kani::any()), f64::from_bits(kani::any()));
    let r = fold3(AggregateFunction::Avg, Value::Int64(a), Value::Int64(b), Value::Float64(f));
    let want = (0.0 + a as f64 + b as f64 + f) / 3.0;
    assert!(matches!(r, Value::Float64(x) if x.to_bits() == want.to_bits() || (x.is_nan() && want.is_nan())), "avg is not sum / count");
    std::mem::forget(r);
    let r = fold3(AggregateFunction::Sum, Value::Float64(f), Value::Float64(g), Value::Float64(h));
    let want = 0.0 + f + g + h;
    assert!(matches!(r, Value::Float64(x) if x.to_bits() == want.to_bits() || (x.is_nan() && want.is_nan())), "float sum is not the sequential sum");
    kani::cover!(f.is_nan());
    std::mem::forget(r);
}

//@ property: C12
//@ tier: quick
//@ cap_s: 300
//@ mem_gb: 8
//@ unwindset: ^std::ptr::drop_glue::<:1; ^std::ptr::drop_in_place::<:1; as std::clone::Clone>::clone$:1; drop_slow$:1
//@ encodes: AggregateState::{new,update} for Sum on Int64 values (aggregate.rs SumInt arm, via hook H13)
//@ symbolic: the second summand (all i64); the first is i64::MAX, respectively i64::MIN (concrete, so that the state's variant stays known to the symbolic executor)
//@ bound: two rows per group; the result value itself is not inspected here (finalize on a symbolic state variant explores the sorting percentile arms: optional thorough harnesses)
//@ oracle: feeding an integer SUM values whose exact sum leaves i64 never panics (guards the repair of the unchecked `+=`; dev-profile semantics: overflow checks on)
#[kani::proof]
#[kani::unwind(4)]
fn c12_sum_extreme_ints_never_panics() {
    let b: i64 = kani::any();
    let mut s = VerifAggregateState::new(AggregateFunction::Sum);
    s.update(Some(Value::Int64(i64::MAX)));
    s.update(Some(Value::Int64(b)));
    std::mem::forget(s);
    let mut t = VerifAggregateState::new(AggregateFunction::Sum);
    t.update(Some(Value::Int64(i64::MIN)));
    t.update(Some(Value::Int64(b)));
    std::mem::forget(t);
    kani::cover!(b > 0);
    kani::cover!(b < 0);
}

//@ property: C11
//@ tier: quick
//@ cap_s: 300
//@ mem_gb: 8
//@ unwindset: ^std::ptr::drop_glue::<:1; ^std::ptr::drop_in_place::<:1; as std::clone::Clone>::clone$:1; drop_slow$:1
//@ encodes: AggregateState::{new,update,finalize} for Count, CountNonNull, Min, Max, First, Last (aggregate.rs, via hook H13), aggregate.rs compare_values
//@ symbolic: two Int64 values (all i64)
//@ bound: groups of 2 rows, Int64 values, no DISTINCT (aggregates whose state variant does not change while folding)
//@ oracle: count(*) = number of rows fed; count(x) = 2; min / max / first / last = their definitions
#[kani::proof]
#[kani::unwind(4)]
fn c11_count_min_max_first_last_of_two() {
    let (a, b): (i64, i64) = (kani::any(), kani::any());
    macro_rules! two { ($f:expr) => {{ let mut s = VerifAggregateState::new($f); s.update(Some(Value::Int64(a))); s.update(Some(Value::Int64(b))); let r = s.finalize(); std::mem::forget(s); r }}; }
    let mut c = VerifAggregateState::new(AggregateFunction::Count);
    c.update(None); c.update(None);
    let rc = c.finalize();
    assert!(matches!(rc, Value::Int64(2)), "count(*) is not the number of rows");
    let c0 = VerifAggregateState::new(AggregateFunction::Count);
    let r0 = c0.finalize();
    assert!(matches!(r0, Value::Int64(0)), "count(*) of no rows is not 0");
    let r = two!(AggregateFunction::CountNonNull); assert!(matches!(r, Value::Int64(2)), "count(x) is not the number of values"); std::mem::forget(r);
    let r = two!(AggregateFunction::Min); assert!(matches!(r, Value::Int64(x) if x == if a <= b { a } else { b }), "min is not the minimum"); std::mem::forget(r);
    let r = two!(AggregateFunction::Max); assert!(matches!(r, Value::Int64(x) if x == if a >= b { a } else { b }), "max is not the maximum"); std::mem::forget(r);
    let r = two!(AggregateFunction::First); assert!(matches!(r, Value::Int64(x) if x == a), "first is not the first value"); std::mem::forget(r);
    let r = two!(AggregateFunction::Last); assert!(matches!(r, Value::Int64(x) if x == b), "last is not the last value"); std::mem::forget(r);
    kani::cover!(a > b);
    kani::cover!(a < b);
    std::mem::forget((c, rc, c0, r0));
}
