//! C13 (store part) — the triple store is a set, under every pattern shape, with and without the object index.
use crate::stubs::*;
use grafeo_core::graph::rdf::{RdfStore, RdfStoreConfig, Term, Triple, TriplePattern};
use std::sync::Arc;

/// universe: subject {iri a, iri b} x predicate {iri p, iri q} x object {"a"^^i, "b"^^i} = 8 triples; bit k of the model
/// mask = triple k present. Term *kinds* are concrete per position, the one-byte lexical forms are symbolic
/// (a symbolic choice between different heap strings makes every memcmp a pointer case split: no verdict in 10 min).
/// one-byte string of concrete length with a symbolic byte (String::push of a symbolic char would make the
/// *length* symbolic through the UTF-8 width branches)
fn with_s1<R>(b: u8, f: impl FnOnce(&str) -> R) -> R { let arr = [b]; f(unsafe { std::str::from_utf8_unchecked(&arr) }) }
fn subj(i: u8) -> Term { with_s1(if i == 0 { b'a' } else { b'b' }, |s| Term::iri(s)) }
fn pred(i: u8) -> Term { with_s1(if i == 0 { b'p' } else { b'q' }, |s| Term::iri(s)) }
fn obj(i: u8) -> Term { with_s1(if i == 0 { b'a' } else { b'b' }, |s| Term::typed_literal(s, "i")) }
fn triple(k: u8) -> Triple { Triple::new(subj(k & 1), pred((k >> 1) & 1), obj((k >> 2) & 1)) }
fn any_k() -> u8 { let k: u8 = kani::any(); kani::assume(k < 8); k }

/// does universe triple k match the pattern (s,p,o) where 2 = unbound?
fn m_match(k: u8, s: u8, p: u8, o: u8) -> bool { (s == 2 || s == (k & 1)) && (p == 2 || p == ((k >> 1) & 1)) && (o == 2 || o == ((k >> 2) & 1)) }
fn popcount_match(mask: u8, s: u8, p: u8, o: u8) -> usize { let mut n = 0; let mut k = 0; while k < 8 { if mask & (1 << k) != 0 && m_match(k, s, p, o) { n += 1; } k += 1; } n }
fn first_byte(t: &Term) -> u8 {
    match t { Term::Iri(i) => i.as_str().as_bytes()[0], Term::BlankNode(b) => b.id().as_bytes()[0], Term::Literal(l) => l.value().as_bytes()[0] }
}
fn index_of(t: &Triple) -> u8 {
    let s = if first_byte(t.subject()) == b'a' { 0 } else { 1 };
    let p = if first_byte(t.predicate()) == b'p' { 0 } else { 1 };
    let o = if first_byte(t.object()) == b'a' { 0 } else { 1 };
    s | (p << 1) | (o << 2)
}

fn check_pattern(st: &RdfStore, mask: u8, s: u8, p: u8, o: u8) {
    let pat = TriplePattern { subject: if s == 2 { None } else { Some(subj(s)) }, predicate: if p == 2 { None } else { Some(pred(p)) }, object: if o == 2 { None } else { Some(obj(o)) } };
    let found = st.find(&pat);
    assert!(found.len() == popcount_match(mask, s, p, o), "find returns a wrong number of triples");
    let mut seen = 0u8; let mut i = 0;
    while i < found.len() {
        let k = index_of(&found[i]);
        assert!(mask & (1 << k) != 0 && m_match(k, s, p, o), "find returned a triple that is absent or does not match");
        assert!(seen & (1 << k) == 0, "find returned a triple twice");
        seen |= 1 << k; i += 1;
    }
    std::mem::forget((found, pat));
}

macro_rules! rdf_h {
    ($name:ident, $idx:expr, $s:ident, $m:ident, $ops:block) => {
        #[kani::proof]
        #[kani::unwind(5)]
        #[kani::stub(parking_lot::RawRwLock::lock_exclusive_slow, lk_slow)]
        #[kani::stub(parking_lot::RawRwLock::lock_shared_slow, lk_sh_slow)]
        #[kani::stub(parking_lot::RawRwLock::unlock_exclusive_slow, ulk_slow)]
        #[kani::stub(parking_lot::RawRwLock::unlock_shared_slow, ulk_sh_slow)]
        #[kani::stub(alloc::fmt::format, fmt_stub)]
        fn $name() {
            let $s = RdfStore::with_config(RdfStoreConfig { initial_capacity: 4, index_objects: $idx });
            let mut $m: u8 = 0;
            { $ops }
            assert!($s.len() == ($m.count_ones() as usize));
            let (ps, pp, po): (u8, u8, u8) = (kani::any(), kani::any(), kani::any());
            kani::assume(ps <= 2 && pp <= 2 && po <= 2);
            check_pattern(&$s, $m, ps, pp, po);
            kani::cover!($m.count_ones() == 2 && ps == 2 && pp == 2 && po != 2);
            kani::cover!($m == 0);
            std::mem::forget($s);
        }
    };
}
fn ins(st: &RdfStore, m: &mut u8) { let k = any_k(); let fresh = st.insert(triple(k)); assert!(fresh == (*m & (1 << k) == 0)); *m |= 1 << k; }
fn rem(st: &RdfStore, m: &mut u8) { let k = any_k(); let t = triple(k); let was = st.remove(&t); assert!(was == (*m & (1 << k) != 0)); *m &= !(1 << k); assert!(!st.contains(&t)); std::mem::forget(t); }

//@ property: C13
//@ tier: thorough
//@ optional: yes
//@ cap_s: 900
//@ mem_gb: 10
//@ unwind: 5
//@ stubs: parking_lot slow paths, alloc::fmt::format
//@ encodes: RdfStore::{with_config,insert,remove,contains,len,find}, TriplePattern::matches, Term::eq, Triple::eq
//@ symbolic: which of the 8 universe triples each step addresses; the pattern (each of s/p/o bound to either universe term or unbound: all 8 shapes x bindings)
//@ bound: word insert,insert,remove; universe {iri a, iri b} x {iri p, iri q} x {"a"^^i, "b"^^i}; object index ON
//@ oracle: bit-mask set model: insert/remove return values, len, and find = exactly the matching members, each once
rdf_h!(c13_iir_indexed, true, st, m, { ins(&st, &mut m); ins(&st, &mut m); rem(&st, &mut m); });

//@ property: C13
//@ tier: thorough
//@ optional: yes
//@ cap_s: 600
//@ mem_gb: 10
//@ unwind: 5
//@ stubs: parking_lot slow paths, alloc::fmt::format
//@ encodes: RdfStore::{with_config,insert,contains,len,find}, TriplePattern::matches, Term::eq, Triple::eq
//@ symbolic: which universe triple each insert addresses (duplicates included); the pattern (8 shapes x bindings)
//@ bound: word insert,insert; universe 2x2x2; object index ON
//@ oracle: bit-mask set model: insert return values, len, and find = exactly the matching members, each once
rdf_h!(c13_ii_indexed, true, st, m, { ins(&st, &mut m); ins(&st, &mut m); });

//@ property: C13
//@ tier: thorough
//@ optional: yes
//@ cap_s: 600
//@ mem_gb: 10
//@ unwind: 5
//@ stubs: parking_lot slow paths, alloc::fmt::format
//@ encodes: RdfStore::{with_config,insert,contains,len,find,triples_with_object}
//@ symbolic: as c13_ii_indexed
//@ bound: word insert,insert; universe 2x2x2; object index OFF (full-scan fallback for object-only patterns)
//@ oracle: same answers as with the object index
rdf_h!(c13_ii_unindexed, false, st, m, { ins(&st, &mut m); ins(&st, &mut m); });

//@ property: C13
//@ tier: thorough
//@ optional: yes
//@ cap_s: 600
//@ mem_gb: 10
//@ unwind: 5
//@ stubs: parking_lot slow paths, alloc::fmt::format
//@ encodes: RdfStore::{with_config,insert,remove,contains,len,find}
//@ symbolic: the inserted and the removed triple (removal of an absent triple included); the pattern
//@ bound: word insert,remove; universe 2x2x2; object index ON
//@ oracle: remove returns whether the triple was present; afterwards every pattern sees exactly the remaining set
rdf_h!(c13_ir_indexed, true, st, m, { ins(&st, &mut m); rem(&st, &mut m); });

/// pattern position: 0/1 = bound to universe term 0/1, 2 = unbound
fn pat_term(which: u8, sel: u8) -> Option<Term> { if sel == 2 { None } else { Some(match which { 0 => subj(sel), 1 => pred(sel), _ => obj(sel) }) } }

//@ property: C13
//@ tier: quick
//@ cap_s: 400
//@ encodes: TriplePattern::matches, Term::eq (derived), Iri/Literal eq, Triple::{new,subject,predicate,object}
//@ symbolic: the triple (which of the 8 universe triples: lexical bytes symbolic) and the pattern (each position bound to either universe term or unbound: 27 patterns, all 8 bound/unbound shapes)
//@ bound: universe {iri a, iri b} x {iri p, iri q} x {"a"^^i, "b"^^i}; one triple, one pattern
//@ oracle: matches() is true exactly when every bound position equals the triple's term
#[kani::proof]
#[kani::unwind(4)]
fn c13_pattern_matches_spec() {
    let k = any_k();
    let t = triple(k);
    let (ps, pp, po): (u8, u8, u8) = (kani::any(), kani::any(), kani::any());
    kani::assume(ps <= 2 && pp <= 2 && po <= 2);
    let pat = TriplePattern { subject: pat_term(0, ps), predicate: pat_term(1, pp), object: pat_term(2, po) };
    assert!(pat.matches(&t) == m_match(k, ps, pp, po), "pattern matching disagrees with the set semantics");
    kani::cover!(ps == 2 && pp != 2 && po != 2 && pat.matches(&t));
    kani::cover!(ps != 2 && !pat.matches(&t));
    std::mem::forget((t, pat));
}

fn mk_term(kind: u8, b: u8) -> Term { with_s1(b, |s| match kind { 0 => Term::iri(s), 1 => Term::blank(s), 2 => Term::literal(s), 3 => Term::typed_literal(s, "i"), _ => Term::lang_literal(s, "e") }) }
macro_rules! term_pair { ($x:expr, $y:expr, $ka:expr, $kb:expr) => {{
    let (a, b) = (mk_term($ka, $x), mk_term($kb, $y));
    let e = a == b;
    assert!(a == a);
    assert!(e == (b == a));
    assert!(e == ($ka == $kb && $x == $y), "term equality differs from (same kind and tag, same lexical form)");
    std::mem::forget((a, b));
}}; }

//@ property: C13
//@ tier: quick
//@ cap_s: 400
//@ encodes: Term::eq (derived) across Iri / BlankNode / typed Literal
//@ symbolic: the one-byte lexical form of each of two terms; kinds range over all 3x3 ordered pairs of {iri, blank, typed literal} (unrolled)
//@ bound: one-byte lexical forms; datatype "i"
//@ oracle: equality is reflexive, symmetric, never holds across kinds, and within a kind holds exactly when the lexical bytes are equal
#[kani::proof]
#[kani::unwind(4)]
fn c13_term_equality_laws() {
    let (x, y): (u8, u8) = (kani::any(), kani::any());
    kani::assume(x < 128 && y < 128);
    term_pair!(x, y, 0, 0); term_pair!(x, y, 0, 1); term_pair!(x, y, 0, 3);
    term_pair!(x, y, 1, 0); term_pair!(x, y, 1, 1); term_pair!(x, y, 1, 3);
    term_pair!(x, y, 3, 0); term_pair!(x, y, 3, 1); term_pair!(x, y, 3, 3);
    kani::cover!(x == y);
}

//@ property: C13
//@ tier: quick
//@ cap_s: 600
//@ mem_gb: 10
//@ encodes: Term::eq / Literal::eq across plain, typed and language-tagged literals
//@ symbolic: the one-byte lexical form of each of two literals; tags range over the 3x3 ordered pairs of {plain (xsd:string), typed "i", language-tagged "e"} (unrolled)
//@ bound: one-byte lexical forms (the datatype IRIs compared are up to 53 bytes: unwind 60)
//@ oracle: equal lexical forms with different tags are different terms; same tag: equal iff same lexical byte
#[kani::proof]
#[kani::unwind(60)]
fn c13_literal_tag_equality() {
    let (x, y): (u8, u8) = (kani::any(), kani::any());
    kani::assume(x < 128 && y < 128);
    term_pair!(x, y, 2, 2); term_pair!(x, y, 2, 3); term_pair!(x, y, 2, 4);
    term_pair!(x, y, 3, 2); term_pair!(x, y, 3, 4);
    term_pair!(x, y, 4, 2); term_pair!(x, y, 4, 3); term_pair!(x, y, 4, 4);
    kani::cover!(x == y);
}

fn mk_lang(b: u8, tag: u8) -> Term { with_s1(b, |s| with_s1(tag, |t| Term::lang_literal(s, t))) }

//@ property: C13
//@ tier: quick
//@ cap_s: 600
//@ mem_gb: 10
//@ encodes: Term::eq / Literal::eq on two language-tagged literals, Triple::eq and TriplePattern::matches on an object-bound pattern over them
//@ symbolic: the one-byte lexical form and the one-byte (lower-case ASCII letter) language tag of each of two literals
//@ bound: one-byte lexical forms and tags (the rdf:langString datatype IRI compared is 53 bytes: unwind 60)
//@ oracle: two language-tagged literals are the same term exactly when lexical form AND tag are equal; a pattern whose object is one of them matches a triple holding the other exactly in that case
#[kani::proof]
#[kani::unwind(60)]
fn c13_language_tags_distinguish_terms() {
    let (x, y, tx, ty): (u8, u8, u8, u8) = (kani::any(), kani::any(), kani::any(), kani::any());
    kani::assume(x < 128 && y < 128);
    kani::assume(tx >= b'a' && tx <= b'z' && ty >= b'a' && ty <= b'z');
    let (a, b) = (mk_lang(x, tx), mk_lang(y, ty));
    let same = x == y && tx == ty;
    assert!(a == a && b == b);
    assert!((a == b) == same, "language-tagged literals: equality differs from (same lexical form and same tag)");
    assert!((b == a) == same);
    let t = Triple::new(subj(0), pred(0), a);
    let pat = TriplePattern { subject: None, predicate: None, object: Some(b) };
    assert!(pat.matches(&t) == same, "object-bound pattern matches a literal with another language tag");
    kani::cover!(x == y && tx != ty);
    kani::cover!(same);
    std::mem::forget((t, pat));
}
