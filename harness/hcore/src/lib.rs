//! Kani harnesses over grafeo-common / grafeo-core (real code, path dependencies on /repo).
//! Every harness carries `//@` metadata lines that bin/vcheck reads.
#![recursion_limit = "512"]
#![allow(unused, clippy::all, static_mut_refs)]
#![cfg_attr(kani, feature(core_io_borrowed_buf, read_buf))]
extern crate alloc;

#[cfg(kani)]
pub mod stubs;
#[cfg(kani)]
pub mod sym;
#[cfg(kani)]
mod c16;
#[cfg(kani)]
mod c15;
#[cfg(kani)]
mod c15w;
#[cfg(kani)]
mod c01;
#[cfg(kani)]
mod c13;
#[cfg(kani)]
mod c14;
#[cfg(kani)]
mod c14b;
#[cfg(kani)]
mod expr;
#[cfg(kani)]
mod c20;
#[cfg(kani)]
mod c10;
#[cfg(kani)]
mod c17;
#[cfg(kani)]
mod c18;
