# property table for bin/mkmanifest: claim(id, level text, level note, DESIGN ref) / NA[id] = reason
UC = "no check registered yet: harnesses for this property are still under construction in this session (see DESIGN.md section 4 for the plan)"
for p in ["C01","C02","C03","C04","C05","C06","C07","C10","C11","C12","C13","C14","C17","C18","C19","C20"]:
    NA[p] = UC
NA["C08"] = "needs symbolic execution of parser->translator->binder->planner->operators over a symbolic graph and query; far beyond what CBMC can encode for this code base (DESIGN.md section 5); the technique is not switched"
NA["C09"] = "soundness of optimizer rewrites is semantic equivalence of two heap-allocated plan trees under execution on all graphs; neither rewrite nor execution is encodable within reach (DESIGN.md section 5)"

claim("C16",
      "Bounded model checking of the real Eq/Ord/Hash impls of OrderedFloat64, OrderableValue, HashableValue and of the spill (de)serialiser: "
      "for ALL bit patterns of i64/f64/f32/bool/timestamp payloads, equality is an equivalence, cmp is a total order consistent with ==, equal values emit "
      "identical Hash byte streams (recording hasher, so every Hasher agrees), and scalar values round-trip bit for bit through the spill codec.",
      "Variants are concrete per query, payloads fully symbolic. String variant, bytes, maps, nesting deeper than a 2-element list, bincode/JSON serialisation and the "
      "index/distinct/sort consumers are outside this check's bound.",
      "DESIGN.md section 4 C16")

claim("C15",
      "Bounded model checking of the real codecs: zig-zag (both copies, all i64/u64), DeltaEncoding signed (n<=3, all i64) and unsigned (sorted, n<=2, all u64), "
      "DeltaBitPacked (n<=2), BitPackedInts at concrete widths 1,7,16,21,32,33,63,64 with n around the values-per-word boundary (values symbolic), bits_needed (all u64), "
      "RunLengthEncoding random access / iteration (n=2), BitVector (n=5+push): decode(encode(x)) == x, random access agrees with full decoding, to_bytes/from_bytes changes nothing.",
      "Lengths and bit widths are concrete per query, element values fully symbolic. Outside the bound: longer sequences (63/64/65 element boundaries), dictionary encoding, codec selector, "
      "compressed property columns and adjacency chunks, succinct structures, RunLengthEncoding::decode for n>=2 (solver ran out of memory; optional thorough harnesses), arbitrary-byte decoding.",
      "DESIGN.md section 4 C15")
