# property table for bin/mkmanifest: claim(id, level text, level note, DESIGN ref) / NA[id] = reason
UC = "no check registered yet: harnesses for this property are still under construction in this session (see DESIGN.md section 4 for the plan)"
for p in ["C02","C05","C06","C07","C10","C11","C12","C13","C14","C17","C18","C19","C20"]:
    NA[p] = UC
NA["C08"] = "needs symbolic execution of parser->translator->binder->planner->operators over a symbolic graph and query; far beyond what CBMC can encode for this code base (DESIGN.md section 5); the technique is not switched"
NA["C09"] = "soundness of optimizer rewrites is semantic equivalence of two heap-allocated plan trees under execution on all graphs; neither rewrite nor execution is encodable within reach (DESIGN.md section 5)"

claim("C16",
      "Bounded model checking of the real Eq/Ord/Hash impls of OrderedFloat64, OrderableValue, HashableValue and of the spill (de)serialiser: "
      "for ALL bit patterns of i64/f64/f32/bool/timestamp payloads, equality is an equivalence, cmp is a total order consistent with ==, equal values emit "
      "identical Hash byte streams (recording hasher, so every Hasher agrees), and scalar values round-trip bit for bit through the spill codec.",
      "Variants are concrete per query, payloads fully symbolic. String variant, bytes, maps, nesting deeper than a 2-element list, bincode/JSON serialisation and the "
      "index/distinct/sort consumers are outside this check's bound.",
      "DESIGN.md section 4 C16")

claim("C15",
      "Bounded model checking of the real codecs: zig-zag (both copies, all i64/u64), DeltaEncoding signed (n<=3, all i64) and unsigned (sorted, n<=2, all u64), "
      "DeltaBitPacked (n<=2), BitPackedInts at concrete widths 1,7,16,21,32,33,63,64 with n around the values-per-word boundary (values symbolic), bits_needed (all u64), "
      "RunLengthEncoding random access / iteration (n=2), BitVector (n=5+push): decode(encode(x)) == x, random access agrees with full decoding, to_bytes/from_bytes changes nothing.",
      "Lengths and bit widths are concrete per query, element values fully symbolic. Outside the bound: longer sequences (63/64/65 element boundaries), dictionary encoding, codec selector, "
      "compressed property columns and adjacency chunks, succinct structures, RunLengthEncoding::decode for n>=2 (solver ran out of memory; optional thorough harnesses), arbitrary-byte decoding.",
      "DESIGN.md section 4 C15")

claim("C01",
      "Bounded model checking of the visibility kernel every read goes through: VersionInfo::is_visible_at/is_visible_to against the declarative snapshot rule for ALL u64 epochs and "
      "transaction ids; VersionChain (3 symbolic versions + delete + rollback of one creator) returns the newest version the rule admits and never a rolled-back one; "
      "chain gc never changes what a reader at or after the horizon sees.",
      "Kernel level only so far: session-level histories over the real store (dirty reads through start-epoch stamping, unversioned properties/labels) and reads through the query "
      "languages are outside this check's bound (DESIGN.md section 4 C01).",
      "DESIGN.md section 4 C01")
claim("C03",
      "Bounded model checking of the real TransactionManager (begin/record_write/commit/abort/gc/state) on 8 concrete history skeletons of up to 8 steps and 3 transactions, with the "
      "entities (all 64 id bits) and isolation levels symbolic, against a declarative first-committer-wins specification: a commit is refused iff another transaction committed after "
      "it began and wrote a common entity; never because of a writer that committed before it began; gc at any of the explored points changes no verdict; refused commits change "
      "nothing; commit epochs strictly increase; aborted writers block nobody; node and edge with equal ids never conflict.",
      "Skeleton shapes are enumerated by hand (listed in the evidence), not all histories; 2 entities, <= 3 transactions, map stand-in capacity 4; commits from several threads are "
      "outside (Kani has no threads; commit holds the table lock for its whole body).",
      "DESIGN.md section 4 C03")
claim("C04",
      "Bounded model checking of the real TransactionManager's SSI validation on 6 concrete skeletons (write skew, mixed levels, read-only, non-overlapping, rw-antidependency, with gc), "
      "entities and isolation levels symbolic, against the specification: SerializationFailure iff Serializable, has writes, not write-conflicted, and read an entity written by a "
      "transaction that committed after it began. One open known finding (read-only Serializable transaction refused) is carved out and pinned by a witness harness.",
      "Hand-enumerated skeleton shapes; <= 3 transactions, <= 3 entities; the global acyclicity argument (per-step rule => serial order) is not machine-checked here.",
      "DESIGN.md section 4 C04")
