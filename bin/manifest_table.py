# property table for bin/mkmanifest: claim(id, level text, level note, DESIGN ref) / NA[id] = reason
UC = "no check registered yet: harnesses for this property are still under construction in this session (see DESIGN.md section 4 for the plan)"
for p in []:
    NA[p] = UC
NA["C08"] = "needs symbolic execution of parser->translator->binder->planner->operators over a symbolic graph and query; far beyond what CBMC can encode for this code base (DESIGN.md section 5); the technique is not switched"
NA["C09"] = "soundness of optimizer rewrites is semantic equivalence of two heap-allocated plan trees under execution on all graphs; neither rewrite nor execution is encodable within reach (DESIGN.md section 5)"

claim("C16",
      "Bounded model checking of the real Eq/Ord/Hash impls of OrderedFloat64, OrderableValue, HashableValue and of the spill (de)serialiser: "
      "for ALL bit patterns of i64/f64/f32/bool/timestamp payloads, equality is an equivalence, cmp is a total order consistent with ==, equal values emit "
      "identical Hash byte streams (recording hasher, so every Hasher agrees), and scalar values round-trip bit for bit through the spill codec.",
      "Variants are concrete per query, payloads fully symbolic (strings: one symbolic byte). Longer strings, bytes, maps, nesting deeper than a 2-element list, bincode/JSON serialisation and the "
      "index/distinct/sort consumers are outside this check's bound.",
      "DESIGN.md section 4 C16")

claim("C15",
      "Bounded model checking of the real codecs: zig-zag (both copies, all i64/u64), DeltaEncoding signed (n<=3, all i64) and unsigned (sorted, n<=2, all u64), "
      "DeltaBitPacked (n<=2; through to_bytes/from_bytes for n<=1, the [0] vs [] distinction included), BitPackedInts at EVERY width 1..=64 with n = min(values-per-word + 1, 9) crossing the word boundary (values symbolic; 64 queries), bits_needed (all u64), "
      "RunLengthEncoding random access / iteration (n=2), BitVector (n=5+push): decode(encode(x)) == x, random access agrees with full decoding, to_bytes/from_bytes changes nothing.",
      "Lengths and bit widths are concrete per query, element values fully symbolic. Outside the bound: longer sequences (63/64/65 element boundaries), dictionary encoding, codec selector, "
      "compressed property columns and adjacency chunks, succinct structures, RunLengthEncoding::decode for n>=2 (solver ran out of memory; optional thorough harnesses), arbitrary-byte decoding.",
      "DESIGN.md section 4 C15")

claim("C01",
      "Bounded model checking of the visibility kernel every read goes through: VersionInfo::is_visible_at/is_visible_to against the declarative snapshot rule for ALL u64 epochs and "
      "transaction ids; VersionChain (3 symbolic versions + delete + rollback of one creator) returns the newest version the rule admits and never a rolled-back one; "
      "chain gc never changes what a reader at or after the horizon sees; a second (stale) delete of an already deleted single-version chain changes no viewer's answer.",
      "Kernel level only so far: session-level histories over the real store (dirty reads through start-epoch stamping, unversioned properties/labels) and reads through the query "
      "languages are outside this check's bound (DESIGN.md section 4 C01).",
      "DESIGN.md section 4 C01")
claim("C03",
      "Bounded model checking of the real TransactionManager (begin/record_write/commit/abort/gc/state) on 12 concrete history skeletons of up to 8 steps and 3 transactions (the thorough tier adds all 30 interleaving variants of two writer scripts), with the "
      "entities (all 64 id bits) and isolation levels symbolic, against a declarative first-committer-wins specification: a commit is refused iff another transaction committed after "
      "it began and wrote a common entity; never because of a writer that committed before it began; gc at any of the explored points changes no verdict; refused commits change "
      "nothing, so a retry is refused again; commit epochs strictly increase; aborted writers block nobody; node and edge with equal ids never conflict; writers that begin at different epochs; gc while a later, non-overlapping writer is active.",
      "Skeleton shapes are enumerated by hand (listed in the evidence), not all histories; 2 entities, <= 3 transactions, map stand-in capacity 4; commits from several threads are "
      "outside (Kani has no threads; commit holds the table lock for its whole body).",
      "DESIGN.md section 4 C03")
claim("C04",
      "Bounded model checking of the real TransactionManager's SSI validation on 9 concrete skeletons (write skew, mixed levels, read-only, non-overlapping, rw-antidependency, gc between the commits, staggered start epochs, a node and an edge with the same id), "
      "entities and isolation levels symbolic, against the specification: SerializationFailure iff Serializable, has writes, not write-conflicted, and read an entity written by a "
      "transaction that committed after it began. One open known finding (read-only Serializable transaction refused) is carved out and pinned by a witness harness.",
      "Hand-enumerated skeleton shapes; <= 3 transactions, <= 3 entities; the global acyclicity argument (per-step rule => serial order) is not machine-checked here.",
      "DESIGN.md section 4 C04")

NA["C05"] = ("every kernel of 'reopen gives back the closed state' needs the bincode decoder of WalRecord or a GrafeoDB over a directory: the decoder "
             "(read-back of a two-frame log, and the bare encode/decode round trip of the id-only records) exhausted 12 GB after 9-11 min even with UTF-8 validation "
             "and error formatting stubbed, because CBMC cannot fold the variant tag it reads back from the heap buffer and explores every record variant; "
             "harnesses are kept as optional thorough ones (DESIGN.md 9.2, 9.4)")
NA["C07"] = ("snapshot export/import is bincode over a full GrafeoDB (same decoder obstacle as C05) and the enumeration-epoch mechanism needs LpgStore + TransactionManager "
             "with committed transactions, beyond the store-level budget measured in DESIGN.md 9.2; the suspected defect (all_nodes enumerates at the store's own epoch) is "
             "described in DESIGN.md section 7 #11 but not decided by a solver check")
NA["C14"] = ("LpgStore under CBMC: new() alone 30 s, create+get 68 s, any 2-3 operation word with a symbolic key, label or node choice had no verdict in 10 min (version chains, "
             "adjacency chunks and label tables live in heap objects, DESIGN.md 9.2); the cross-accessor harnesses are kept as optional thorough ones; the pruning-soundness "
             "clause of this property is decided under C10")

claim("C02",
      "Bounded model checking of rollback at two levels. Kernel: VersionChain::remove_versions_by on a chain of a committed base version and two versions of the rolled-back "
      "transaction (all epochs, creators, viewer symbolic): afterwards none of the transaction's versions is visible to anyone and every viewer sees exactly the pre-transaction "
      "state. Composition: the real TransactionManager and LpgStore composed as session.rs composes them (begin, create_node at the transaction's start epoch, rollback = "
      "discard_uncommitted_versions + abort; the writer's start epoch symbolic): one node, and two nodes, created in the transaction are invisible afterwards to readers outside and inside a transaction. One open known "
      "finding (rollback leaves a property written in the transaction) is pinned by a witness harness.",
      "Session itself is not encoded (its Arc<LpgStore> makes the store a heap object: no verdict); commit publication is an optional thorough harness (no verdict within 15 min under "
      "load); edges, deletes, labels, failed commits, dropped sessions, MERGE and query-issued mutations are outside the bound.",
      "DESIGN.md 9.4 C02")
claim("C06",
      "Bounded model checking of the real WalRecovery::read_record over BufReader<File> on a symbolic disk (File reads stubbed, crc32fast replaced by a bitwise CRC-32 model). "
      "(1) Torn frames: for payloads of 1, 2, 3 and 5 bytes and EVERY content, a file cut at EVERY byte length strictly inside the last frame never yields a record - also when every "
      "byte that is present is correct (cuts inside the checksum with a correct checksum prefix); a cut inside the length prefix reads as a clean end of log. (2) Checksums: a complete "
      "frame (3-byte payload, every payload and stored-checksum content, i.e. every single- and multi-bit corruption) is returned if and only if the stored checksum equals the CRC-32 "
      "of the payload.",
      "Frame-acceptance kernel only. In the harnesses of (2) and the correct-prefix part of (1) the bincode decoder is cut (stub: every payload decodes), because the decoder itself is out "
      "of reach (see C05 in not_applicable); in the symbolic-content part of (1) crash points are unrolled so that the decoder is never reached. Multi-frame logs, the replay loop's "
      "commit/abort filter (Kani compiler crash), append-after-crash, the writer side (optional thorough harness, out of memory), checkpoint files and rotation are outside.",
      "DESIGN.md 9.4 C06")
claim("C10",
      "Bounded model checking of zone-map pruning against the filter's own semantics, two pieces of real code: PropertyStorage::{set,remove,rebuild_zone_maps,might_match,"
      "might_match_range} / ZoneMapEntry::might_contain_* versus ExpressionPredicate's comparison kernels, for two stored values and a literal over Int64xInt64xInt64 (all i64), "
      "Float64 (all non-NaN doubles), mixed kinds (Null, Bool, Timestamp with Int64) and a column holding an Int64 next to a Float64, all six comparison operators and the range form "
      "(two-sided, half-open, unbounded; inclusive or not), also after one update of the column (overwrite, remove, remove+rebuild, overwrite+rebuild, remove then insert): whenever the "
      "filter matches a live stored value, pruning does not answer 'no match'. Plus the planner's range-pattern extraction (Planner::extract_between_predicate via a cfg(kani) wrapper): "
      "for all 16 pairs of < <= > >=, both operand orders per conjunct and all i64 bounds, the extracted (min, max, inclusive flags) range contains an i64 exactly when the conjunction "
      "holds for it. One open known finding (a column mixing integers beyond 2^53 with floats) is carved out and pinned by a witness harness.",
      "Pruning and range-extraction kernels only: one column, two nodes, one update; NaN stored values, strings, property indexes, find_nodes_in_range itself, the planner's zone-map "
      "decision over a populated store (optional thorough harnesses, no verdict within 16 GB), edge variables, plan cache and factorized execution are outside.",
      "DESIGN.md 9.4 C10, 9.9")
claim("C11",
      "Bounded model checking of the real expression evaluator kernels (eval_binary_op / eval_unary_op): for p = a OP b with OP in {=,<>,<,<=,>,>=,AND,OR,XOR} and operands over 11 kind "
      "pairs of Null/Bool/Int64/Float64/Timestamp (all payload bits, NaN and mismatched kinds included), exactly one of p, NOT p, p IS NULL is true; and of the real aggregate state "
      "machine (AggregateState via a cfg(kani) handle): count(*) equals the number of rows fed, count(x), min, max, first, last equal their definitions for two Int64 values (all i64).",
      "Three-valued partition and aggregate-state kernels only; strings, IN, limit/skip, DISTINCT and UNION operators, the aggregate operators around the state machine, sum/avg values "
      "(optional thorough harnesses) and the identities at query-language level are outside.",
      "DESIGN.md 9.4 C11")
claim("C12",
      "Bounded model checking of the real arithmetic evaluator kernels: + - * / % and unary minus return (Some or None) without panicking for EVERY pair of i64, every f64 bit "
      "pattern, and mismatched operand kinds (dev-profile semantics: overflow checks on), including i64::MIN / -1, x / 0, i64::MIN % -1 and -i64::MIN; and the integer SUM aggregate "
      "(AggregateState via a cfg(kani) handle) never panics when fed i64::MAX or i64::MIN followed by any i64.",
      "Expression-arithmetic and SUM-aggregate kernels only. Lexers, parsers, translators, binder, planner and the rest of execution are outside: the design-phase probes of the GQL lexer had no verdict "
      "(DESIGN.md section 8 R4); the known lexer defect (byte-wise advance over multi-byte characters) is described in section 7 #7 but not decided by a solver check.",
      "DESIGN.md 9.4 C12")
claim("C13",
      "Bounded model checking of the triple pattern kernel: TriplePattern::matches agrees with the set semantics for every universe triple and all 27 patterns (all 8 bound/unbound "
      "shapes); Term equality is reflexive, symmetric, never holds across kinds, and equal lexical forms with different datatype/language tags are different terms; two language-tagged literals are the same term exactly when lexical form and tag (both symbolic) agree, "
      "and an object-bound pattern matches across them only then.",
      "Pattern-matching and term-equality kernels only: the store (insert/remove/indexes) is out of reach (a single concrete insert had no verdict in 5 min, DESIGN.md 9.2); SPARQL "
      "translation, planning and execution are outside.",
      "DESIGN.md 9.4 C13, 9.10")
claim("C17",
      "Bounded model checking of the morsel arithmetic: generate_morsels covers [0,total) exactly with consecutive, non-empty, disjoint morsels for total <= 3 and EVERY usize morsel "
      "size (0, larger than the input, near usize::MAX); Morsel::split_at yields two adjacent non-empty halves.",
      "Morsel kernels only; worker threads, the scheduler, thread schedules, accumulator merges, sorted-run merges, push-vs-pull operators and spilling are outside.",
      "DESIGN.md 9.4 C17")
claim("C18",
      "Bounded model checking of exact nearest-neighbour search and the scalar distance kernels: brute_force_knn over 3 one-dimensional vectors (finite f32, |x| <= 2^20), k in 0..=4, "
      "Manhattan metric: at most k distinct ids from the index, each paired with its true distance (bitwise), sorted, min(k,n) of them, none omitted that is strictly closer; Manhattan "
      "and dot-product kernels equal their definitions bit for bit on 2-dimensional vectors.",
      "SIMD dispatch stubbed to the scalar kernels. Euclidean/Cosine are outside (CBMC models sqrt nondeterministically: spurious counterexample observed), as are HNSW, quantisers, "
      "larger n and dim, batch search.",
      "DESIGN.md 9.4 C18")
claim("C19",
      "Bounded model checking of the UnionFind kernel that components and Kruskal are built on: after any 3 unions on 4 elements connected() equals the reflexive-symmetric-transitive "
      "closure, union() reports a merge exactly when the sets differed, find() is idempotent; class counts and the equivalence laws on 3 elements; 6 elements with a rank-2 tree and two symbolic unions (the lower-rank-under-higher-rank branch with non-root arguments).",
      "UnionFind kernel only; algorithms over the real store (shortest paths, components, MST, traversals, flow, centrality) are outside (store-based harnesses exceed the budget, DESIGN.md 9.2).",
      "DESIGN.md 9.4 C19")
claim("C20",
      "Bounded model checking of the memory manager under a sequentialised schedule: a second thread's try_allocate runs (solver's choice) inside the first one's load/update window "
      "(verif_yield hook in the CAS closure) or after it; for all request sizes allocated() never exceeds the hard limit and equals the sum of the grants, and returns to zero after "
      "release; single-threaded for EVERY usize size (no overflow).",
      "Memory-manager clause only, 2 threads x 1 allocation, well-nested schedules, atomics sequentially consistent, no registered consumers (eviction stubbed to 'frees nothing'); "
      "identifier uniqueness, index tearing in LpgStore/RdfStore, commit epochs across threads, deadlock freedom are outside (Kani has no threads).",
      "DESIGN.md 9.4 C20")
