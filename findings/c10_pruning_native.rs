use grafeo_common::types::{NodeId, PropertyKey, Value};
use grafeo_core::execution::DataChunk;
use grafeo_core::execution::operators::{BinaryFilterOp, ExpressionPredicate, FilterExpression};
use grafeo_core::graph::lpg::{CompareOp, LpgStore, PropertyStorage};
use std::sync::Arc;

fn filter(a: Value, op: BinaryFilterOp, b: Value) -> Option<Value> {
    let e = FilterExpression::Binary { left: Box::new(FilterExpression::Literal(a)), op, right: Box::new(FilterExpression::Literal(b)) };
    ExpressionPredicate::new(e, Default::default(), Arc::new(LpgStore::new())).eval_at(&DataChunk::empty(), 0)
}

#[test]
fn float_equality_pruned_although_filter_matches() {
    let stored = 0.1f64;
    let lit = f64::from_bits(stored.to_bits() + 1); // next double above 0.1
    let st: PropertyStorage<NodeId> = PropertyStorage::new();
    st.set(NodeId::new(1), PropertyKey::new("k"), Value::Float64(stored));
    st.set(NodeId::new(2), PropertyKey::new("k"), Value::Float64(stored));
    let matches = filter(Value::Float64(stored), BinaryFilterOp::Eq, Value::Float64(lit));
    let may = st.might_match(&PropertyKey::new("k"), CompareOp::Eq, &Value::Float64(lit));
    println!("filter says {:?}, pruning says might_match = {}", matches, may);
    assert!(!(matches == Some(Value::Bool(true)) && !may), "pruning drops a row the filter accepts");
}

#[test]
fn not_equal_pruned_although_filter_matches_other_typed_value() {
    let st: PropertyStorage<NodeId> = PropertyStorage::new();
    st.set(NodeId::new(1), PropertyKey::new("k"), Value::Int64(5));
    st.set(NodeId::new(2), PropertyKey::new("k"), Value::Bool(true));
    let matches = filter(Value::Bool(true), BinaryFilterOp::Ne, Value::Int64(5));
    let may = st.might_match(&PropertyKey::new("k"), CompareOp::Ne, &Value::Int64(5));
    println!("filter says {:?}, pruning says might_match = {}", matches, may);
    assert!(!(matches == Some(Value::Bool(true)) && !may), "pruning drops a row the filter accepts");
}
