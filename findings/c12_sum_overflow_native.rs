// Native demonstration (public API only) of the defect found by hcore::expr::c12_aggregate_sum_never_panics:
// the integer SUM aggregate added with the unchecked `+=`, so a query over two nodes panicked in the dev/test
// profile ("attempt to add with overflow") and wrapped silently in release.
// Put it at crates/grafeo-engine/tests/c12_sum_overflow_native.rs and run
//   cargo test --offline -p grafeo-engine --test c12_sum_overflow_native
// Fails (panics) before the repair `fix: integer SUM no longer overflows`, passes after it.
use grafeo_common::types::Value;
use grafeo_engine::GrafeoDB;

#[test]
fn sum_of_extreme_integers_returns_instead_of_panicking() {
    let db = GrafeoDB::new_in_memory();
    let s = db.session();
    s.create_node_with_props(&["P"], [("x", Value::Int64(i64::MAX))]);
    s.create_node_with_props(&["P"], [("x", Value::Int64(1))]);
    let r = s.execute("MATCH (n:P) RETURN sum(n.x)").expect("query returns");
    assert_eq!(r.rows.len(), 1);
    // the exact sum 2^63 does not fit in an i64: it must not be reported as a (wrapped) integer; the repaired
    // aggregate answers NULL, like the expression arithmetic does on overflow
    match &r.rows[0][0] {
        Value::Int64(i) => panic!("wrapped integer sum {i}"),
        Value::Null => {}
        other => panic!("unexpected {other:?}"),
    }
}
