use grafeo_common::types::{NodeId, PropertyKey, Value};
use grafeo_core::execution::DataChunk;
use grafeo_core::execution::operators::{BinaryFilterOp, ExpressionPredicate, FilterExpression};
use grafeo_core::graph::lpg::{CompareOp, LpgStore, PropertyStorage};
use std::sync::Arc;

fn filter(a: Value, op: BinaryFilterOp, b: Value) -> Option<Value> {
    let e = FilterExpression::Binary { left: Box::new(FilterExpression::Literal(a)), op, right: Box::new(FilterExpression::Literal(b)) };
    ExpressionPredicate::new(e, Default::default(), Arc::new(LpgStore::new())).eval_at(&DataChunk::empty(), 0)
}

/// open known finding c10_mixed_column_beyond_2p53
#[test]
fn mixed_int_float_column_beyond_2p53_is_pruned_although_filter_matches() {
    let st: PropertyStorage<NodeId> = PropertyStorage::new();
    let big: i64 = (1 << 53) + 1;
    st.set(NodeId::new(1), PropertyKey::new("k"), Value::Int64(big));
    st.set(NodeId::new(2), PropertyKey::new("k"), Value::Float64(9007199254740992.0));
    let lit = Value::Int64(1 << 53);
    let matches = filter(Value::Float64(9007199254740992.0), BinaryFilterOp::Le, lit.clone());
    let may = st.might_match(&PropertyKey::new("k"), CompareOp::Le, &lit);
    println!("filter says {:?}, pruning says might_match = {}", matches, may);
    assert!(!(matches == Some(Value::Bool(true)) && !may), "pruning drops a row the filter accepts");
}
